"""Shared workload plumbing for the property modules."""
from __future__ import annotations

import hashlib
import os
import time

from vf import gen, refmodel
from vf import universe as U


def scale(quick, thorough, tier):
    n = quick if tier == 'quick' else thorough
    f = float(os.environ.get('VERIF_SCALE', '1'))
    return max(1, int(n * f))


def fp(*parts):
    return hashlib.sha1(repr(parts).encode('utf-8', 'replace')).hexdigest()[:16]


class Case:
    __slots__ = ('name', 'seed', 'index', 'desc', 'tree', 'mat', 'profile', 'rng')

    def ident(self):
        return dict(gen=self.name, seed=self.seed, index=self.index, profile=self.profile, desc=self.desc.short()[:400])


def make_case(name, seed, index, profile=None, size_budget=24, history=True):
    c = Case()
    c.name, c.seed, c.index = name, seed, index
    c.rng = gen.case_rng(seed, name, index)
    prof = profile or gen.PROFILE_NAMES[index % len(gen.PROFILE_NAMES)]
    c.desc, c.profile = gen.gen_desc(c.rng, prof, size_budget)
    c.tree, c.mat = gen.materialize(c.desc, c.rng, history=history)
    return c


def opts_for(index, k, all_opts):
    """Deterministic rotation through the option grid: k options per tree, every cell hit."""
    n = len(all_opts)
    start = (index * k) % n
    return [all_opts[(start + j * 7) % n] for j in range(k)]


def nontrivial(ref_shape, mat):
    return ref_shape.internal_nodes() >= 2 or bool(mat.hist_classes)


class Deadline:
    def __init__(self, seconds):
        self.t = time.time() + seconds

    def over(self):
        return time.time() > self.t
