"""Shared workload plumbing for the property modules."""
from __future__ import annotations

import hashlib
import os
import time

from vf import gen, refmodel
from vf import universe as U


def scale(quick, thorough, tier):
    n = quick if tier == 'quick' else thorough
    f = float(os.environ.get('VERIF_SCALE', '1'))
    return max(1, int(n * f))


def fp(*parts):
    return hashlib.sha1(repr(parts).encode('utf-8', 'replace')).hexdigest()[:16]


class Case:
    __slots__ = ('name', 'seed', 'index', 'desc', 'tree', 'mat', 'profile', 'rng')

    def ident(self):
        return dict(gen=self.name, seed=self.seed, index=self.index, profile=self.profile, desc=self.desc.short()[:400])


def make_case(name, seed, index, profile=None, size_budget=24, history=True):
    c = Case()
    c.name, c.seed, c.index = name, seed, index
    c.rng = gen.case_rng(seed, name, index)
    prof = profile or gen.PROFILE_NAMES[index % len(gen.PROFILE_NAMES)]
    c.desc, c.profile = gen.gen_desc(c.rng, prof, size_budget)
    c.tree, c.mat = gen.materialize(c.desc, c.rng, history=history)
    return c


def opts_for(index, k, all_opts):
    """Deterministic rotation through the option grid: k options per tree, every cell hit."""
    n = len(all_opts)
    start = (index * k) % n
    return [all_opts[(start + j * 7) % n] for j in range(k)]


def nontrivial(ref_shape, mat):
    return ref_shape.internal_nodes() >= 2 or bool(mat.hist_classes)


class Deadline:
    def __init__(self, seconds):
        self.t = time.time() + seconds

    def over(self):
        return time.time() > self.t


# ---- re-entrant callbacks -------------------------------------------------------------------------------------------------------
import contextlib  # noqa: E402

import optree  # noqa: E402

_SMALL = {'b': [1, (2, None)], 'a': U.CSeq([3, {'z': 4}], meta='re'), 'c': U.Point(5, [6])}
_REENT = [0]


_TICKS = [0]
_SMALL_LEAVES, _SMALL_SPEC = optree.tree_flatten(_SMALL)
_REENT_OPS = (
    lambda: optree.tree_flatten(_SMALL),
    lambda: _SMALL_SPEC.unflatten(_SMALL_LEAVES),
    lambda: (hash(_SMALL_SPEC), repr(_SMALL_SPEC), _SMALL_SPEC.paths()),
    lambda: optree.tree_map(lambda x, y: x, _SMALL, _SMALL),
    lambda: list(optree.tree_iter(_SMALL, is_leaf=lambda x: type(x) is tuple)),
    lambda: _SMALL_SPEC.transform(lambda s_: s_, lambda s_: s_),
    lambda: _SMALL_SPEC.flatten_up_to(_SMALL),
    lambda: _SMALL_SPEC.broadcast_to_common_suffix(_SMALL_SPEC),
    lambda: _SMALL_SPEC.accessors(),
    lambda: _SMALL_SPEC.traverse(_SMALL_LEAVES, lambda n_: n_, lambda x: x),
    lambda: _SMALL_SPEC.walk(_SMALL_LEAVES, lambda t_, d_, ch: ch, lambda x: x),
    lambda: optree.tree_transpose_map(lambda x: (x, x), _SMALL),
)


def _reentrant_hook(site, obj):
    """Harness callbacks the engine reaches (predicates, custom flatten / unflatten functions) call back into optree - user code does that
    (the FlatCache pattern): every third callback runs one small operation, rotating through flatten, unflatten, hash / repr / paths, map, iter,
    transform, flatten_up_to, broadcast, accessors, traverse, walk, transpose_map."""
    _TICKS[0] += 1
    if _REENT[0] or _TICKS[0] % 3:
        return
    _REENT[0] += 1
    try:
        _REENT_OPS[(_TICKS[0] // 3) % len(_REENT_OPS)]()
    finally:
        _REENT[0] -= 1


@contextlib.contextmanager
def reentrant(on=True):
    if not on:
        yield
        return
    old = U.HOOK[0]
    U.HOOK[0] = _reentrant_hook
    try:
        yield
    finally:
        U.HOOK[0] = old
