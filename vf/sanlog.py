"""Collect and deduplicate sanitizer report blocks from log_path files (ASan / UBSan / TSan)."""
from __future__ import annotations

import glob
import os
import re

_ASAN = re.compile(r'==\d+==ERROR: (AddressSanitizer|LeakSanitizer|ThreadSanitizer)[: ]+([^\n]*)')
_UBSAN = re.compile(r'^(\S+:\d+:\d+): runtime error: ([^\n]*)', re.M)
_TSAN = re.compile(r'WARNING: ThreadSanitizer: ([^\n(]*)')
_FRAME = re.compile(r'#\d+ 0x[0-9a-f]+ in (\S+) (\S+)')


def _first_repo_frame(text):
    for fn, loc in _FRAME.findall(text):
        if '/repo/' in loc or 'optree' in fn or '/include/optree/' in loc or '/src/' in loc:
            loc = re.sub(r':\d+(:\d+)?$', '', os.path.basename(loc.split(' ')[0]))
            return f'{fn.split("(")[0][:60]}@{loc}'
    return 'no-repo-frame'


def parse(text):
    reports = []
    # split into blocks at ASan/TSan headers; UBSan lines are standalone
    for m in _ASAN.finditer(text):
        block = text[m.start(): m.start() + 6000]
        kind = m.group(2).split(' ')[0] if m.group(1) == 'AddressSanitizer' else m.group(1)
        reports.append(dict(kind=f'{m.group(1)}:{kind}', frame=_first_repo_frame(block), text=block[:3000]))
    for m in _TSAN.finditer(text):
        block = text[m.start(): m.start() + 6000]
        reports.append(dict(kind='ThreadSanitizer:' + m.group(1).strip().replace(' ', '-'), frame=_first_repo_frame(block), text=block[:3000]))
    for m in _UBSAN.finditer(text):
        loc = re.sub(r':\d+:\d+$', '', os.path.basename(m.group(1)))
        what = re.sub(r'0x[0-9a-f]+', 'ADDR', m.group(2))[:60]
        reports.append(dict(kind='UBSan:' + what, frame=loc, text=text[m.start(): m.start() + 2500]))
    return reports


def collect(log_path, remove=True):
    """All reports from files log_path.* ; deduplicated by (kind, frame)."""
    out = {}
    n_files = 0
    for f in glob.glob(log_path + '*'):
        n_files += 1
        try:
            with open(f, errors='replace') as fh:
                text = fh.read()
        except OSError:
            continue
        for r in parse(text):
            key = (r['kind'], r['frame'])
            if key not in out:
                r['count'] = 0
                out[key] = r
            out[key]['count'] += 1
        if remove:
            try:
                os.unlink(f)
            except OSError:
                pass
    return list(out.values())
