"""tick()-based k-th-callback fault injector, ticking key / metadata / namedtuple / entry classes,
and the refcount ledger (C15)."""
from __future__ import annotations

import collections
import gc
import sys
from collections import namedtuple

import optree

from vf import universe as U


class Injected(Exception):
    """The injected failure: a direct Exception subclass (never TypeError, which key sorting swallows)."""

    def __init__(self, site, k):
        super().__init__(site, k)
        self.site = site
        self.k = k


class Injector:
    def __init__(self):
        self.n = 0
        self.target = None
        self.sites = collections.Counter()
        self.fired = None
        self.log = []

    def hook(self, site, obj):
        self.n += 1
        self.sites[site] += 1
        if self.target is not None and self.n == self.target:
            self.fired = Injected(site, self.n)
            raise self.fired

    def arm(self, target):
        self.n = 0
        self.target = target
        self.fired = None
        U.HOOK[0] = self.hook

    def disarm(self):
        U.HOOK[0] = None


# ---- ticking helper classes -------------------------------------------------------------------
class TKey:
    """Dict key whose __hash__ / __eq__ / __lt__ / __repr__ tick; hashes collide within a group."""

    __slots__ = ('v', 'g')

    def __init__(self, v, g=0):
        self.v = v
        self.g = g

    def __hash__(self):
        U.tick('key.__hash__', self)
        return 1000 + self.g

    def __eq__(self, o):
        U.tick('key.__eq__', self)
        return type(o) is TKey and o.v == self.v

    def __lt__(self, o):
        U.tick('key.__lt__', self)
        if type(o) is not TKey:
            return NotImplemented
        return self.v < o.v

    def __repr__(self):
        U.tick('key.__repr__', self)
        return f'TKey({self.v})'


class TMeta:
    """Custom-node metadata whose __eq__ / __repr__ / __hash__ tick."""

    __slots__ = ('v',)

    def __init__(self, v):
        self.v = v

    def __eq__(self, o):
        U.tick('meta.__eq__', self)
        return type(o) is TMeta and o.v == self.v

    def __ne__(self, o):
        U.tick('meta.__ne__', self)
        return not (type(o) is TMeta and o.v == self.v)

    def __hash__(self):
        U.tick('meta.__hash__', self)
        return hash(('TMeta', self.v))

    def __repr__(self):
        U.tick('meta.__repr__', self)
        return f'TMeta({self.v})'


class TNT(namedtuple('TNTBase', ['p', 'q'])):
    """namedtuple whose constructor ticks (invoked by unflatten)."""

    __slots__ = ()

    def __new__(cls, p, q):
        U.tick('namedtuple.__new__', cls)
        return super().__new__(cls, p, q)


class TEntry(optree.GetItemEntry):
    """Path entry type whose construction ticks (invoked by accessors())."""

    __slots__ = ()

    def __post_init__(self):
        U.tick('entry.__init__', self)
        super().__post_init__()


class TNode(U.CBase):
    """Custom node registered with TEntry (global)."""

    __slots__ = ()


def _tnode_flatten(o):
    U.tick('flatten:TNode', o)
    return tuple(o.kids), o.meta, None


def _tnode_unflatten(m, c):
    U.tick('unflatten:TNode', m)
    return TNode(c, m)


optree.register_pytree_node(TNode, _tnode_flatten, _tnode_unflatten, path_entry_type=TEntry, namespace='vffault')


class TIter:
    """Leaves iterable whose __next__ ticks."""

    def __init__(self, xs):
        self.xs = list(xs)
        self.i = 0

    def __iter__(self):
        return self

    def __next__(self):
        U.tick('leaves.__next__', None)
        if self.i >= len(self.xs):
            raise StopIteration
        self.i += 1
        return self.xs[self.i - 1]


# ---- refcount ledger --------------------------------------------------------------------------
class Ledger:
    def __init__(self, objs):
        # dedupe by identity; keep the list itself out of the counts (constant contribution)
        seen = set()
        self.objs = []
        for o in objs:
            if id(o) not in seen:
                seen.add(id(o))
                self.objs.append(o)

    def read(self):
        return [sys.getrefcount(o) for o in self.objs]

    def diff(self, before, after):
        return [(repr(o)[:60], b, a) for o, b, a in zip(self.objs, before, after) if a != b]
