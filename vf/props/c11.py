"""C11 - pickling a treespec preserves it exactly (same process and fresh processes)."""
from __future__ import annotations

import copy
import json
import os
import pickle
import re
import subprocess
import sys
import tempfile

import optree
from optree.registry import __GLOBAL_NAMESPACE as GLOBAL

from vf import gen, harness, refmodel, same, verdict
from vf import universe as U

LEVEL = 'exploration'
RULE = (
    'treespecs of C01 trees x option grid; same process: pickle protocols 2..5, copy.copy, copy.deepcopy compared on an observation vector '
    '(repr, counts, paths, accessors, recursive entries, children reprs, description of unflatten(0..n-1) incl. original dict key order) plus '
    '==/hash; protocols 0-1 must be refused uniformly. Fresh interpreters (python -m vf.pickle_child) with registry histories {same, every '
    'registration removed one by one (cumulative), every registration removed and re-made, every registration moved to another non-global '
    'namespace}: equal to a treespec flattened afresh there (==, hash, observation vector) or loading raises. distinct = distinct '
    '(description, options); non-trivial = >= 2 internal nodes'
)
ASSUMPTIONS = [
    'the child regenerates the same tree from the case tuple (seeded generators, PYTHONHASHSEED=0)',
    '"registered in the recorded namespace" is read with the engine\'s lookup rule: that namespace, else global',
    'addresses inside reprs are normalised; non-reflexive (NaN) keys and struct-sequence classes python itself cannot pickle are excluded',
    'malformed __setstate__ payloads are out of scope (C11 and C16 do not claim safety of unpickling hostile bytes)',
]

_ADDR = re.compile(r' at 0x[0-9a-f]+')


def norm(s):
    return _ADDR.sub('', s)


def obs(s):
    """Observation vector of a treespec through its public API only (process independent)."""
    def entries_rec(sp, depth=0):
        out = [norm(repr(sp.entries()))]
        if depth < 6:
            for ch in sp.children():
                out.append(entries_rec(ch, depth + 1))
        return out

    n = s.num_leaves
    try:
        tree = s.unflatten(range(n))
        desc = norm(same.describe(tree))
    except Exception as e:  # noqa: BLE001
        desc = f'unflatten raised {type(e).__name__}'
    return dict(
        repr=norm(repr(s)),
        counts=[s.num_leaves, s.num_nodes, s.num_children, str(s.kind), s.none_is_leaf, s.namespace],
        type=norm(repr(s.type)),
        paths=norm(repr(s.paths())),
        accessors=norm(repr(s.accessors())),
        entries=entries_rec(s),
        children=[norm(repr(c)) for c in s.children()],
        unflatten=desc,
    )


def custom_types(sh, ns, acc=None):
    acc = set() if acc is None else acc
    if sh.kind == 'custom':
        acc.add((f'{sh.type.__module__}.{sh.type.__qualname__}', sh.reg['ns']))
    for c in sh.children:
        custom_types(c, ns, acc)
    return acc


def has_nonreflexive_key(sh):
    if sh.kind in ('dict', 'ordereddict', 'defaultdict') and any(k != k for k in sh.entries):
        return True
    return any(has_nonreflexive_key(c) for c in sh.children)


def shards(tier, seed):
    n = 1 if tier == 'quick' else 8
    return [dict(i=i, n=n) for i in range(n)]


SIZE = 16


def run_shard(sink, tier, seed, shard):  # noqa: C901
    n_trees = harness.scale(700, 40000, tier)
    n_child = harness.scale(120, 4000, tier)
    opts = gen.all_opts(preds=('none', 'is_list', 'pair'))
    i0, step = (shard or {}).get('i', 0), (shard or {}).get('n', 1)
    batch = []
    for idx in range(i0, n_trees, step):
        for o in harness.opts_for(idx, 3, opts):
            profile = gen.PROFILE_NAMES[idx % len(gen.PROFILE_NAMES)]
            c = harness.make_case('c11', seed, idx, profile=profile, size_budget=SIZE)
            ident = dict(c.ident(), opt=repr(o))
            with o.ctx():
                ref = refmodel.flatten(c.tree, o.ref())
                s = optree.tree_structure(c.tree, **o.kw())
            if has_nonreflexive_key(ref.shape):
                sink.count('skipped:nan-keys')
                continue
            base = obs(s)
            pickles = {}
            unpicklable = False
            for proto in range(0, pickle.HIGHEST_PROTOCOL + 1):
                try:
                    data = pickle.dumps(s, proto)
                except pickle.PicklingError:
                    unpicklable = True  # python cannot pickle e.g. the class sys.int_info by reference
                    continue
                except TypeError as e:
                    sink.check(proto < 2, 'dumps/refused-protocol>=2', 'protocols >= 2 are supported', ident, repr(e))
                    sink.count('protocol01-refused')
                    continue
                except Exception as e:  # noqa: BLE001
                    sink.violation(f'dumps/{type(e).__name__}', 'dumps raises', ident, repr(e))
                    continue
                if proto < 2:
                    # uniform refusal is expected; bytes that load to something else would be a violation
                    try:
                        back = pickle.loads(data)
                        sink.check(back == s and obs(back) == base, 'protocol01/loads-differently', 'protocol 0/1 bytes, if produced, load to the same treespec', ident)
                    except Exception:  # noqa: BLE001
                        pass
                    continue
                pickles[proto] = data
                back = pickle.loads(data)
                sink.check(back == s and s == back and hash(back) == hash(s), f'same-process/eq-hash', 'loads(dumps(s)) == s with equal hash', ident, lambda: (repr(back), repr(s)))
                ob = obs(back)
                diffk = [k for k in base if base[k] != ob[k]]
                sink.check(not diffk, 'same-process/observation/' + ','.join(diffk), 'loads(dumps(s)) has the same repr, paths, accessors, entries, children and unflatten result', ident,
                           lambda: {k: (base[k], ob[k]) for k in diffk})
            if pickles:
                # loading while the process is in the other dict-order mode must not re-order anything
                for mode_ns in (GLOBAL, o.namespace or U.NS):
                    with optree.dict_insertion_ordered(not o.insertion, namespace=mode_ns):
                        back = pickle.loads(pickles[max(pickles)])
                        ob = obs(back)
                    diffk = [k for k in base if base[k] != ob[k]]
                    sink.check(back == s and hash(back) == hash(s) and not diffk, 'same-process/other-dict-mode/' + ','.join(diffk),
                               'a treespec loaded while the other dict-order mode is active is the same treespec', ident, lambda: {k: (base[k], ob[k]) for k in diffk})
                    sink.count('loads-under-other-mode')
                    # ... and the other way round: DUMPED while the other mode is active, loaded in the default state
                    with optree.dict_insertion_ordered(not o.insertion, namespace=mode_ns):
                        data_m = pickle.dumps(s, max(pickles))
                    back = pickle.loads(data_m)
                    ob = obs(back)
                    diffk = [k for k in base if base[k] != ob[k]]
                    sink.check(back == s and hash(back) == hash(s) and not diffk, 'same-process/dumped-under-other-dict-mode/' + ','.join(diffk),
                               'a treespec pickled while the other dict-order mode is active is the same treespec', ident, lambda: {k: (base[k], ob[k]) for k in diffk})
                # treespecs inside a larger pickle (memoised, shared key objects) and next to their own leaves
                try:
                    bundle = pickle.loads(pickle.dumps([s, (s, {'k': s}), s.children(), s.paths()], pickle.HIGHEST_PROTOCOL))
                    ok = bundle[0] == s and bundle[1][0] == s and bundle[1][1]['k'] == s and obs(bundle[1][1]['k']) == base and [repr(x) for x in bundle[2]] == [repr(x) for x in s.children()]
                    sink.check(ok, 'same-process/bundle', 'a treespec pickled inside a larger object graph is preserved exactly', ident)
                    sink.count('bundles')
                except pickle.PicklingError:
                    pass
            if unpicklable:
                sink.count('skipped:python-cannot-pickle-class')
            for name, cp in (('copy', copy.copy(s)), ('deepcopy', copy.deepcopy(s))):
                ob = obs(cp)
                diffk = [k for k in base if base[k] != ob[k]]
                sink.check(cp == s and hash(cp) == hash(s) and not diffk, f'{name}/observation/' + ','.join(diffk), f'copy.{name}(s) is observationally identical', ident,
                           lambda: {k: (base[k], ob[k]) for k in diffk})
            sink.cell('opt', o.none_is_leaf, o.namespace or 'global', o.pred, o.dict_mode)
            sink.case(harness.fp(c.desc.short(), o.key()), ref.shape.internal_nodes() >= 2, dict(ident, treespec=repr(s)[:200], bytes=len(pickles.get(2, b''))))
            if pickles and len(batch) < n_child and not unpicklable:
                batch.append(dict(case=('c11', seed, idx, o.key()), profile=profile, size_budget=SIZE, pickles=pickles,
                                  custom=sorted(custom_types(ref.shape, o.namespace)), obs=base, ident=ident))
    for idx in range(i0, harness.scale(300, 6000, tier), step):
        sink.guard('harness', 'history', dict(index=idx), lambda: history_case(sink, seed, idx))
    # ---- fresh interpreters
    work = tempfile.mkdtemp(prefix='c11-', dir=os.path.join(verdict.VERIF, '.work'))
    try:
        bpath = os.path.join(work, 'batch.pkl')
        with open(bpath, 'wb') as f:
            pickle.dump([{k: v for k, v in b.items() if k not in ('obs', 'ident')} for b in batch], f)
        by_case = {tuple(map(_tuplify, b['case'])): b for b in batch}
        for history in ('same', 'reregistered', 'missing', 'other-namespace'):
            out = os.path.join(work, f'{history}.json')
            p = subprocess.run([sys.executable, '-m', 'vf.pickle_child', bpath, history, out], capture_output=True, text=True, timeout=1800)
            if p.returncode != 0:
                sink.violation(f'child/{history}/died', 'the loading interpreter must not die', dict(history=history, rc=p.returncode), p.stderr[-2000:])
                continue
            with open(out) as f:
                results = json.load(f)
            for r in results:
                b = by_case[tuple(map(_tuplify, r['case']))]
                ident = dict(b['ident'], history=r['round'], proto=r['proto'])
                if r['expect_raise']:
                    sink.check(r['outcome'] == 'raised', f'cross-process/{history}/loaded-without-registration',
                               'loading raises when a custom type is not registered in the recorded namespace', ident, lambda: r)
                    sink.count(f'child:{history}:raised')
                else:
                    ok = r['outcome'] == 'loaded'
                    sink.check(ok, f'cross-process/{history}/raised', 'loading succeeds when every custom type is registered', ident, lambda: r)
                    if ok:
                        sink.check(r['eq_fresh'] and r['hash_fresh'], f'cross-process/{history}/eq-fresh', 'the loaded treespec equals one flattened afresh there, with equal hash', ident, lambda: r)
                        diffk = [k for k in b['obs'] if b['obs'][k] != r['obs'][k]]
                        sink.check(not diffk, f'cross-process/{history}/observation/' + ','.join(diffk), 'the loaded treespec is observationally identical to the original', ident,
                                   lambda: {k: (b['obs'][k], r['obs'][k]) for k in diffk})
                        diffk = [k for k in r['obs'] if r['obs_fresh'][k] != r['obs'][k]]
                        sink.check(not diffk, f'cross-process/{history}/observation-vs-fresh/' + ','.join(diffk), 'the loaded treespec is observationally identical to a fresh one there', ident,
                                   lambda: {k: (r['obs_fresh'][k], r['obs'][k]) for k in diffk})
                        sink.count(f'child:{history}:loaded')
    finally:
        import shutil

        shutil.rmtree(work, ignore_errors=True)
    sink.extra['child_cases'] = len(batch)


def history_case(sink, seed, idx):  # noqa: C901
    """The loading process has a registry HISTORY: a treespec was already unpickled (and is still alive) before the custom type is
    unregistered / re-registered / shadowed.  Whatever the engine remembers from the first load must not decide the later ones."""
    rng = gen.case_rng(seed, 'c11hist', idx)
    ns = rng.choice(['', 'c11ns'])

    class Loc(U.CBase):
        __slots__ = ()

    Loc.__name__ = Loc.__qualname__ = f'C11Loc{idx}'
    globals()[Loc.__name__] = Loc  # picklable by reference
    Loc.__module__ = __name__

    def fl(o):
        return tuple(o.kids), ('Loc', o.meta), None

    def un_a(m, c):
        return Loc(c, ('A', m[1]))

    def un_b(m, c):
        return Loc(c, ('B', m[1]))

    nsarg = ns or GLOBAL
    ident = dict(gen='c11hist', seed=seed, index=idx, ns=ns)
    registered = False
    try:
        optree.register_pytree_node(Loc, fl, un_a, namespace=nsarg)
        registered = True
        tree = [Loc([U.Leaf(1), {'k': Loc([U.Leaf(2)], meta='inner')}], meta=idx), U.Leaf(3)]
        s = optree.tree_structure(tree, namespace=ns)
        data = {p: pickle.dumps(s, p) for p in range(2, pickle.HIGHEST_PROTOCOL + 1)}
        proto = rng.choice(sorted(data))
        first = pickle.loads(data[proto])  # kept alive on purpose
        sink.check(first == s and obs(first) == obs(s), 'history/first-load', 'loads(dumps(s)) equals s', ident)
        keep = [first, s] if rng.random() < 0.7 else []
        # (1) unregistered: loading must raise
        optree.unregister_pytree_node(Loc, namespace=nsarg)
        registered = False
        for p, d in data.items():
            try:
                got = pickle.loads(d)
                out = f'loaded a treespec with {got.num_nodes} nodes'  # (not its repr: a treespec without its registration may not survive being printed)
                del got
            except Exception as e:  # noqa: BLE001
                out = 'raised'
            sink.check(out == 'raised', 'history/unregistered-type-loads', 'loading raises when the custom type is not registered in the recorded namespace (also after an earlier successful load)', dict(ident, proto=p), out)
        # (2) registered again with other functions / path entry type: equal to a treespec flattened afresh, and bound to the NEW registration
        optree.register_pytree_node(Loc, fl, un_b, path_entry_type=optree.GetItemEntry, namespace=nsarg)
        registered = True
        fresh = optree.tree_structure(tree, namespace=ns)
        for p, d in data.items():
            try:
                got = pickle.loads(d)
            except Exception as e:  # noqa: BLE001
                sink.violation('history/re-registered-type-raises', 'loading works again once the type is registered again', dict(ident, proto=p), repr(e)[:200])
                continue
            rebuilt = got.unflatten([U.Leaf(7), U.Leaf(8), U.Leaf(9)])
            ok = got == fresh and fresh == got and hash(got) == hash(fresh) and obs(got) == obs(fresh) and rebuilt[0].meta[0] == 'B' and type(got.accessors()[0][1]) is optree.GetItemEntry
            sink.check(ok, 'history/re-registered-type', 'after unregister + register the loaded treespec equals one flattened afresh and uses the new registration', dict(ident, proto=p),
                       lambda: (repr(got)[:150], repr(rebuilt)[:150], [type(e_).__name__ for e_ in got.accessors()[0]]))
        sink.count('history-cases')
        del keep
    finally:
        if registered:
            try:
                optree.unregister_pytree_node(Loc, namespace=nsarg)
            except Exception:  # noqa: BLE001
                pass
        globals().pop(Loc.__name__, None)
    sink.case(harness.fp('hist', idx % 50, ns), True, ident if idx < 2 else None)


def _tuplify(x):
    return tuple(map(_tuplify, x)) if isinstance(x, (list, tuple)) else x


def finalize(sink, tier, seed):
    sink.require('oracle:loads(dumps(s)) == s with equal hash', 100)
    sink.require('protocol01-refused')
    sink.require('history-cases', 100)
    for h in ('same', 'reregistered'):
        sink.require(f'child:{h}:loaded')
    for h in ('missing', 'other-namespace'):
        sink.require(f'child:{h}:raised')
        sink.require(f'child:{h}:loaded')
