"""C15 - a failing user callback fails the operation cleanly (every k-th invocation enumerated)."""
from __future__ import annotations

import gc
import json
import os
import pickle
from collections import OrderedDict, defaultdict, deque

import optree

from vf import build, faults, gen, harness, runner, same
from vf import universe as U
from vf.faults import TEntry, TIter, TKey, TMeta, TNode, TNT, Injected, Injector, Ledger

LEVEL = 'fault_enumeration'
EXHAUSTIVE = True
RULE = (
    'for each of ~45 public operations x scenario trees carrying a callback at every node kind (ticking is_leaf, custom flatten/unflatten, '
    'mapped f, f_node/f_leaf, key __hash__/__eq__/__lt__/__repr__, metadata __eq__/__repr__, namedtuple __new__, entry constructor, leaves '
    '__next__): a counting run gives K, then EVERY k = 1..K is injected (single fault per run) in journaled worker processes; per injection: '
    'the caught exception is the injected object, refcount ledger of all tracked objects unchanged, re-running the operation equals the '
    'pre-failure baseline, hash/repr of the treespec unchanged. Malformed flatten returns / wrong leaf counts: documented exception types only. '
    'The same per-injection oracle also runs on GENERATED scenarios (seeded trees with container histories, a second materialisation of the same '
    'description as rest tree, drawn option combination incl. namespace / none_is_leaf / predicate / dict-order mode; 4 operations per tree; every k up to '
    '24, above that first, last and an even spread). distinct = distinct (operation, scenario, k); non-trivial = the operation completes a fault-free run with K >= 1'
)
ASSUMPTIONS = [
    'exempt: CPython\'s OrderedDict.items() iterator itself replaces a key __hash__/__eq__ failure by KeyError (seen through the pure-python one-level flatten used by prefix_errors)',
    'single fault per run; the injected exception is a direct Exception subclass (TypeError from key comparison is legitimately swallowed by the sort fallback)',
    'automatic GC is disabled during an injection; on a refcount difference gc.collect() is run and the comparison repeated (collectable cycles are not leaks)',
    'thorough repeats the enumeration on the ASan+UBSan build (partially built tuples / agenda vectors on unwinding)',
]

NSF = 'vffault'


def scenario(i):  # noqa: C901
    """Scenario trees with callbacks at every node kind. Returns dict(tree, rest, ns, tracked)."""
    L = [U.Leaf(j) for j in range(16)]
    k = [TKey(j, g=j // 3) for j in range(9)]
    m1, m2 = TMeta('m1'), TMeta('m1')
    tracked = list(L) + list(k) + [m1, m2]
    if i == 0:
        tree = {k[1]: [L[0], (L[1], None)], k[0]: U.CSeq([L[2], TNT(L[3], L[4])], meta=m1), k[2]: OrderedDict([(k[4], L[5]), (k[3], deque([L[6]], maxlen=3))])}
        rest = {k[0]: U.CSeq([L[7], TNT(L[8], L[9])], meta=m2), k[1]: [L[10], (L[11], None)], k[2]: OrderedDict([(k[4], L[12]), (k[3], deque([L[13]]))])}
        ns = ''
    elif i == 1:
        tree = TNode([defaultdict(int, [(k[1], L[0]), (k[0], L[1])]), U.CMap([L[2], L[3]], meta=m1, names=['b', 'a']), L[4]], meta=m1)
        rest = TNode([{k[0]: L[5], k[1]: L[6]}, U.CMap([L[7], [L[8]]], meta=m2, names=['b', 'a']), (L[9],)], meta=m2)
        ns = NSF
    elif i == 2:
        tree = [U.DC(L[0], {k[0]: L[1], k[5]: L[2]}, z=1), U.CNs([L[3], U.CAttr(L[4], L[5], meta=m1)]), U.UDict({'y': L[6], 'x': TNT(L[7], None)})]
        rest = [U.DC(L[8], {k[5]: L[9], k[0]: [L[10]]}, z=1), U.CNs([L[11], U.CAttr(L[12], L[13], meta=m2)]), U.UDict({'y': L[14], 'x': TNT(L[15], None)})]
        ns = U.NS
    elif i == 3:
        tree = optree.functools.partial(U.rec_fn, L[0], [L[1], TNode([L[2]], meta=m1)], kw={k[0]: L[3], k[1]: L[4]})
        rest = optree.functools.partial(U.rec_fn, L[5], [L[6], TNode([L[7]], meta=m2)], kw={k[1]: L[8], k[0]: L[9]})
        ns = NSF
    elif i == 4:
        tree = (U.CShadow([L[0], {k[6]: L[1], k[7]: L[2], k[8]: L[3]}], meta=m1), U.CUser([L[4], TNT(L[5], L[6])], meta=m1), None, U.Point(L[7], [L[8]]))
        rest = (U.CShadow([L[9], {k[8]: L[10], k[7]: L[11], k[6]: L[12]}], meta=m2), U.CUser([L[13], TNT(L[14], L[15])], meta=m2), None, U.Point(L[0], [L[1]]))
        ns = U.NS
    elif i == 6:
        # mixed key types: the plain sort fails with TypeError and the (type name, key) fallback sort runs,
        # comparing the TKeys among themselves (callbacks inside the *fallback* stage)
        tree = {7: L[0], k[1]: [L[1]], k[0]: L[2], 'x': (L[3],), k[2]: defaultdict(int, {k[4]: L[4], 3: L[5], k[3]: L[6]})}
        rest = {k[0]: L[7], 'x': (L[8],), k[1]: [L[9]], 7: L[10], k[2]: {3: L[11], k[3]: L[12], k[4]: [L[13]]}}
        ns = ''
    else:
        tree = deque([{k[0]: TNode([L[0], L[1]], meta=m1)}, defaultdict(list, {k[2]: TNT(L[2], L[3]), k[1]: L[4]}), OrderedDict([(k[3], U.CList([L[5]], meta=m1))])], maxlen=5)
        rest = deque([{k[0]: TNode([L[6], L[7]], meta=m2)}, OrderedDict([(k[1], L[8]), (k[2], TNT(L[9], L[10]))]), {k[3]: U.CList([L[11]], meta=m2)}])
        ns = NSF
    # a tree that does NOT match `tree` (one dict with another key set, its keys stored in unsorted order): the operations below fail with the
    # documented ValueError on their own - the callbacks reached on that error path (key comparisons while the message is built) are fault points too
    spare = [TKey(20 + j, g=7) for j in range(3)]
    bad = None
    if i == 0:
        bad = dict(rest)
        bad[k[2]] = OrderedDict([(spare[2], L[12]), (k[4], L[13]), (spare[0], L[14]), (spare[1], L[15])])
    elif i == 6:
        bad = dict(rest)
        bad[k[2]] = OrderedDict([(k[4], L[11]), (spare[1], L[12]), (3, L[13]), (spare[0], L[14])])
    elif i == 5:
        bad = deque([OrderedDict([(spare[1], L[6]), (k[0], L[7]), (spare[0], L[8])]), rest[1], rest[2]])
    tracked += spare
    return dict(tree=tree, rest=rest, bad=bad, ns=ns, tracked=tracked, leaves=L)


def canon(x, depth=0):  # noqa: C901
    """Process-local canonical form of an operation result (identity of leaves, repr of treespecs)."""
    if isinstance(x, optree.PyTreeSpec):
        return ('spec', x.num_leaves, x.num_nodes, str(x.kind))
    if isinstance(x, optree.PyTreeAccessor):
        return ('acc', len(x))
    if isinstance(x, (U.Leaf, TKey, TMeta)):
        return ('obj', id(x))
    if x is None or isinstance(x, (bool, int, str, float, bytes)):
        return x
    if depth > 12:
        return '...'
    if isinstance(x, dict):
        return (type(x).__name__, tuple((id(k) if isinstance(k, TKey) else repr(k), canon(v, depth + 1)) for k, v in x.items()))
    if isinstance(x, (list, tuple, deque)):
        return (type(x).__name__, tuple(canon(v, depth + 1) for v in x))
    if hasattr(type(x), '_same_parts'):
        m, ch = x._same_parts()
        return (type(x).__name__, id(m) if isinstance(m, TMeta) else repr(m), tuple(canon(v, depth + 1) for v in ch))
    if isinstance(x, optree.functools.partial):
        return ('partial', canon(x.args, depth + 1), canon(x.keywords, depth + 1))
    return ('other', type(x).__name__)


def ticking(fn_name):
    def f(*a):
        U.tick(fn_name, None)
        return a[-1] if fn_name != 'f_pair' else (a[-1], a[-1])
    return f


def pred(x):
    U.tick('pred', x)
    return False


def operations():  # noqa: C901
    """name -> callable(ctx) ; ctx has tree, rest, ns, spec, rspec, leaves(list)."""
    f = ticking('f')
    ops = {}

    def kw(c):
        return c.get('kw') or dict(is_leaf=pred, none_is_leaf=False, namespace=c['ns'])

    def kwn(c):
        return dict(none_is_leaf=False, namespace=c['ns'])

    ops['tree_flatten'] = lambda c: optree.tree_flatten(c['tree'], **kw(c))
    ops['tree_flatten_with_path'] = lambda c: optree.tree_flatten_with_path(c['tree'], **kw(c))
    ops['tree_flatten_with_accessor'] = lambda c: optree.tree_flatten_with_accessor(c['tree'], **kw(c))
    ops['tree_iter'] = lambda c: list(optree.tree_iter(c['tree'], **kw(c)))
    ops['tree_leaves'] = lambda c: optree.tree_leaves(c['tree'], **kw(c))
    ops['tree_structure'] = lambda c: optree.tree_structure(c['tree'], **kw(c))
    ops['tree_paths'] = lambda c: optree.tree_paths(c['tree'], **kw(c))
    ops['tree_accessors'] = lambda c: optree.tree_accessors(c['tree'], **kw(c))
    ops['tree_is_leaf'] = lambda c: optree.tree_is_leaf(c['tree'], **kw(c))
    ops['all_leaves'] = lambda c: optree.all_leaves(c['leaves'] + [c['tree']], **kw(c))
    ops['tree_map'] = lambda c: optree.tree_map(f, c['tree'], c['rest'], **kw(c))
    ops['tree_map_'] = lambda c: optree.tree_map_(f, c['tree'], c['rest'], **kw(c))
    ops['tree_map_with_path'] = lambda c: optree.tree_map_with_path(f, c['tree'], **kw(c))
    ops['tree_map_with_accessor'] = lambda c: optree.tree_map_with_accessor(f, c['tree'], **kw(c))
    ops['tree_transpose_map'] = lambda c: optree.tree_transpose_map(ticking('f_pair'), c['tree'], **kw(c))
    ops['tree_broadcast_prefix'] = lambda c: optree.tree_broadcast_prefix(c['tree'], c['rest'], **kw(c))
    ops['tree_broadcast_common'] = lambda c: optree.tree_broadcast_common(c['tree'], c['rest'], **kw(c))
    ops['tree_broadcast_map'] = lambda c: optree.tree_broadcast_map(f, c['tree'], c['rest'], **kw(c))
    ops['tree_reduce'] = lambda c: optree.tree_reduce(lambda a, b: f(b), c['tree'], None, **kw(c))
    ops['tree_max'] = lambda c: optree.tree_max(c['tree'], key=lambda x: (U.tick('keyfn', x), id(x))[1], default=None, **kw(c))
    ops['tree_flatten_one_level'] = lambda c: optree.tree_flatten_one_level(c['tree'], is_leaf=pred, namespace=c['ns'])
    ops['prefix_errors'] = lambda c: optree.prefix_errors(c['tree'], c['rest'], **kw(c))
    ops['unflatten'] = lambda c: c['spec'].unflatten(TIter(c['leaves']))
    ops['tree_unflatten'] = lambda c: optree.tree_unflatten(c['spec'], c['leaves'])
    ops['traverse'] = lambda c: c['spec'].traverse(TIter(c['leaves']), ticking('f_node'), ticking('f_leaf'))
    ops['walk'] = lambda c: c['spec'].walk(c['leaves'], lambda t, d, ch: (U.tick('f_node', None), ch)[1], ticking('f_leaf'))
    ops['transform'] = lambda c: c['spec'].transform(ticking('f_node'), ticking('f_leaf'))
    ops['flatten_up_to'] = lambda c: c['spec'].flatten_up_to(c['rest'])
    ops['is_prefix'] = lambda c: (c['spec'].is_prefix(c['rspec']), c['spec'] <= c['rspec'], c['rspec'] >= c['spec'], c['spec'] < c['rspec'])
    ops['eq'] = lambda c: (c['spec'] == c['spec2'], c['spec'] != c['rspec'])
    ops['hash'] = lambda c: hash(c['spec'])
    ops['repr'] = lambda c: repr(c['spec'])
    ops['paths'] = lambda c: c['spec'].paths()
    ops['accessors'] = lambda c: c['spec'].accessors()
    ops['entries-children'] = lambda c: (c['spec'].entries(), c['spec'].children(), c['spec'].one_level())
    ops['compose'] = lambda c: c['spec'].compose(c['rspec'])
    ops['broadcast_to_common_suffix'] = lambda c: c['spec'].broadcast_to_common_suffix(c['rspec'])
    ops['pickle'] = lambda c: pickle.loads(pickle.dumps(c['spec']))
    ops['treespec_from_collection'] = lambda c: optree.treespec_from_collection(c['speccoll'], namespace=c['ns'])
    ops['treespec_dict'] = lambda c: optree.treespec_dict(c['specdict'], namespace=c['ns'])
    ops['set-member'] = lambda c: len({c['spec'], c['spec2'], c['rspec']})
    # operations that fail with the documented ValueError by themselves (mismatching second tree / treespec)
    ops['tree_map/mismatch'] = lambda c: optree.tree_map(f, c['tree'], c['bad'], **kw(c))
    ops['flatten_up_to/mismatch'] = lambda c: c['spec'].flatten_up_to(c['bad'])
    ops['is_prefix/mismatch'] = lambda c: (c['spec'].is_prefix(c['bspec']), c['spec'] <= c['bspec'], c['bspec'] >= c['spec'])
    ops['broadcast_to_common_suffix/mismatch'] = lambda c: c['spec'].broadcast_to_common_suffix(c['bspec'])
    ops['broadcast_to_common_suffix/mismatch-rev'] = lambda c: c['bspec'].broadcast_to_common_suffix(c['spec'])
    ops['tree_broadcast_common/mismatch'] = lambda c: optree.tree_broadcast_common(c['tree'], c['bad'], **kw(c))
    ops['prefix_errors/mismatch'] = lambda c: [type(e('t')).__name__ for e in optree.prefix_errors(c['tree'], c['bad'], **kw(c))]
    return ops


def build_ctx(si):
    s = scenario(si)
    c = dict(s)
    kwn = dict(none_is_leaf=False, namespace=s['ns'])
    c['leaves'], c['spec'] = optree.tree_flatten(s['tree'], **kwn)
    c['spec2'] = optree.tree_structure(s['tree'], **kwn)
    c['rspec'] = optree.tree_structure(s['rest'], **kwn)
    c['bspec'] = optree.tree_structure(s['bad'], **kwn) if s['bad'] is not None else None
    leaf = optree.treespec_leaf()
    keys = [x for x in s['tracked'] if isinstance(x, TKey)]
    c['specdict'] = {keys[1]: leaf, keys[0]: c['spec'], keys[2]: leaf} if si != 6 else {keys[1]: leaf, 5: c['spec'], keys[0]: leaf, 'y': leaf}
    c['speccoll'] = TNode([c['spec'], leaf], meta=s['tracked'][-1]) if s['ns'] == NSF else U.CSeq([c['spec'], leaf], meta=s['tracked'][-1])
    c['tracked'] = s['tracked'] + [s['tree'], s['rest'], c['spec'], c['spec2'], c['rspec'], c['leaves'], c['specdict'], c['speccoll']] + ([s['bad'], c['bspec']] if s['bad'] is not None else [])
    return c


N_SCEN = 7
# operations run on the generated scenarios (those whose callbacks a generated tree can reach: predicate, custom flatten / unflatten, mapped f,
# visitors, leaves iterator); each generated tree gets RAND_OPS_PER_TREE of them, rotating
RAND_OPS = ('tree_flatten', 'tree_flatten_with_path', 'tree_flatten_with_accessor', 'tree_iter', 'tree_leaves', 'tree_structure', 'tree_paths', 'tree_accessors',
            'tree_map', 'tree_map_', 'tree_map_with_path', 'tree_map_with_accessor', 'tree_transpose_map', 'tree_broadcast_prefix', 'tree_broadcast_common',
            'tree_broadcast_map', 'tree_reduce', 'tree_max', 'tree_flatten_one_level', 'prefix_errors', 'unflatten', 'tree_unflatten', 'traverse', 'walk', 'transform',
            'flatten_up_to', 'all_leaves', 'treespec_from_collection')
RAND_OPS_PER_TREE = 4
RAND_K_CAP = 24
_PRIMITIVE = (int, str, float, bool, bytes, complex, type(None))


def journal_cases(shard):
    ops = list(operations())
    cases = [dict(op=o, scen=s) for s in range(N_SCEN) for o in ops]
    import random

    for idx in range(shard.get('nrand', 0)):
        for o in random.Random(f'{shard.get("seed", 0)}:c15r-ops:{idx}').sample(RAND_OPS, RAND_OPS_PER_TREE):
            cases.append(dict(op=o, rand=idx, seed=shard.get('seed', 0)))
    return [c for j, c in enumerate(cases) if j % shard['n'] == shard['i']]


def build_rand_ctx(seed, idx):
    """A generated scenario: a seeded tree with container histories, a second materialisation of the same description as the rest tree
    (equal structure, other objects, other insertion orders), an option combination drawn by the case rng."""
    import random

    cs = harness.make_case('c15r', seed, idx, size_budget=14)
    opt = gen.rand_opt(cs.rng, preds=[p_ for p_ in gen.PREDICATES if p_ not in gen.LEAF_CONTENT_PREDS])
    rest, _ = gen.materialize(cs.desc, random.Random(f'{seed}:c15r-rest:{idx}'))
    c = dict(tree=cs.tree, rest=rest, bad=None, bspec=None, ns=opt.namespace, kw=opt.kw(), opt=opt, ident=dict(cs.ident(), opt=repr(opt)))
    with opt.ctx():
        c['leaves'], c['spec'] = optree.tree_flatten(cs.tree, **opt.kw())
        c['spec2'] = optree.tree_structure(cs.tree, **opt.kw())
        c['rspec'] = optree.tree_structure(rest, **opt.kw())
    leaf = optree.treespec_leaf(none_is_leaf=opt.none_is_leaf)
    c['specdict'] = {'b': leaf, 'a': c['spec']}
    c['speccoll'] = [c['spec'], leaf, (c['spec'],)]
    objs = [x for t in (cs.tree, rest) for x in same.subobjects(t, limit=300) if not isinstance(x, _PRIMITIVE)]
    keys = [k_ for x in objs if isinstance(x, dict) for k_ in x if not isinstance(k_, _PRIMITIVE)]
    c['tracked'] = objs + keys + [c['spec'], c['spec2'], c['rspec'], c['leaves'], c['specdict'], c['speccoll']]
    return c


def journal_run(sink, case, sub_start, progress):  # noqa: C901
    import contextlib

    opname = case['op']
    op = operations()[opname]
    rand = 'rand' in case
    with contextlib.ExitStack() as stack:
        if rand:
            si = f'r{case["rand"]}'
            c = build_rand_ctx(case['seed'], case['rand'])
            ident = dict(c['ident'], op=opname)
            stack.enter_context(c['opt'].ctx())
        else:
            si = case['scen']
            ident = dict(op=opname, scenario=si)
            c = build_ctx(si)
        _journal_run(sink, opname, op, si, c, ident, rand, sub_start, progress)


def _journal_run(sink, opname, op, si, c, ident, rand, sub_start, progress):  # noqa: C901
    inj = Injector()
    # what every treespec involved looks like before anything ran (the counting run below must not change it either)
    all_specs = [x for x in (c['spec'], c['spec2'], c['rspec'], c.get('bspec')) if x is not None]
    base_hash, base_repr = [hash(x) for x in all_specs], [repr(x) for x in all_specs]
    # counting run (also the baseline)
    inj.arm(None)
    try:
        try:
            base = ('ok', canon(op(c)))
        except Exception as e:  # noqa: BLE001
            base = ('exc', type(e).__name__, str(e)[:200])
    finally:
        inj.disarm()
    K = inj.n
    sites = dict(inj.sites)
    if not rand:
        sink.extra.setdefault('K', {})[f'{opname}/s{si}'] = K
    mismatch_op = opname.split('/')[-1].startswith('mismatch')
    if mismatch_op and c['bad'] is None:
        sink.count('op-not-applicable')
        return
    if mismatch_op:
        sink.check(base[0] == 'ok' or base[1] == 'ValueError', f'mismatch-baseline/{opname}', 'a mismatching second tree fails with the documented ValueError (or, for predicates, returns)', ident, base)
    if base[0] != 'ok' and not (mismatch_op and base[1] == 'ValueError'):
        # the operation does not apply to this scenario (e.g. rest is not a suffix): nothing to inject into
        sink.count('op-not-applicable' + ('/generated' if rand else ''))
        if not rand:
            sink.extra.setdefault('not_applicable', []).append(f'{opname}/s{si}: {base[1]}')
        return
    for s_, n_ in sites.items():
        sink.count(f'site-reached:{s_.split(":")[0]}', n_)
    ledger = Ledger(c['tracked'])
    gc.collect()
    ks = range(1, K + 1)
    if rand:
        sink.count('generated-scenarios' if K else 'generated-scenarios/no-callback-reached')
        if K > RAND_K_CAP:
            # every k up to the cap would only ever fail near the start of the traversal: first, last and an even spread in between
            ks = sorted({1, K} | {1 + (j * (K - 1)) // (RAND_K_CAP - 1) for j in range(RAND_K_CAP)})
    for k in ks:
        if k < sub_start:
            continue
        progress(k)
        gc.disable()
        try:
            before = ledger.read()
            inj.arm(k)
            caught = None
            returned = False
            exempt = False
            try:
                try:
                    op(c)
                    returned = True
                except BaseException as e:  # noqa: BLE001
                    caught = e
            finally:
                inj.disarm()
            fired = inj.fired
            site = fired.site.split(':')[0] if fired is not None else 'none'
            ok_identity = caught is fired and fired is not None
            if not ok_identity and type(caught) is KeyError and site.startswith('key.') and caught.__traceback__ is not None:
                # CPython's OrderedDict.items() iterator replaces an error raised by key.__hash__ / __eq__
                # with KeyError(key) (odictiter_iternext); that happens inside CPython, below optree's
                # pure-python one-level flatten, and is not something optree can preserve.
                tb = caught.__traceback__
                while tb.tb_next is not None:
                    tb = tb.tb_next
                if tb.tb_frame.f_code.co_name == 'unzip2':
                    ok_identity = True
                    exempt = True
                del tb
            caught_desc = f'{type(caught).__name__}: {str(caught)[:150]}' if caught is not None else 'returned'
            # drop the exception and its traceback before reading refcounts
            if caught is not None:
                caught.__traceback__ = None
            del caught
            fired_k = fired.k if fired is not None else None
            inj.fired = None
            del fired
            after = ledger.read()
            if after != before:
                gc.collect()
                after = ledger.read()
        finally:
            gc.enable()
        jid = dict(ident, k=k, K=K, site=site)
        if fired_k is None:
            sink.count('injection-not-reached')
            continue
        if exempt:
            sink.count('exempt:cpython-odict-items-replaces-exception')
        sink.check(not returned, f'partial-result/{opname}/{site}', 'no result is returned when a callback raised', jid)
        sink.check(ok_identity, f'exception-identity/{opname}/{site}', 'the exception object raised by the callback propagates to the caller', jid, caught_desc)
        sink.check(after == before, f'refcount/{opname}/{site}', 'reference counts of leaves, trees, keys and treespecs are unchanged after the failed call', jid, lambda: ledger.diff(before, after))
        # afterwards everything behaves as if the call never happened
        try:
            again = ('ok', canon(op(c)))
        except Exception as e:  # noqa: BLE001
            again = ('exc', type(e).__name__, str(e)[:200])
        sink.check(again == base, f'rerun/{opname}/{site}', 'the same operation re-run without faults equals the pre-failure baseline', jid, lambda: (again, base))
        try:
            h2, r2 = [hash(x) for x in all_specs], [repr(x) for x in all_specs]
        except Exception as e:  # noqa: BLE001
            h2, r2 = type(e).__name__, ''
        sink.check((h2, r2) == (base_hash, base_repr), f'guards-cleared/{opname}/{site}', 'hash / repr of every treespec involved are unchanged (in-progress guards cleared, operands untouched)', jid,
                   lambda: [(a[:160], b[:160]) for a, b in zip(r2, base_repr) if a != b] or (h2, base_hash))
        sink.count(f'injections:{site}')
        sink.count('injections')
        if rand:
            sink.count('injections/generated')
            sink.cell('generated-op', opname)
            sink.cell('generated-site', site)
        sink.case(harness.fp(opname, si, k, ident.get('seed')), True, jid if k == 1 and si in (0, 'r0') else None)
    sink.cell('op', opname)


# ---- malformed returns -------------------------------------------------------------------------
def malformed(sink):
    ns = U.NS_BAD
    spec_ok = optree.tree_structure([1, (2, 3)])
    calls = {
        'tree_flatten': lambda t: optree.tree_flatten(t, namespace=ns),
        'tree_flatten_with_path': lambda t: optree.tree_flatten_with_path(t, namespace=ns),
        'tree_iter': lambda t: list(optree.tree_iter(t, namespace=ns)),
        'tree_map': lambda t: optree.tree_map(lambda x: x, t, namespace=ns),
        'treespec_from_collection': lambda t: optree.treespec_from_collection(t, namespace=ns),
        'tree_flatten_one_level': lambda t: optree.tree_flatten_one_level(t, namespace=ns),
        'tree_broadcast_common': lambda t: optree.tree_broadcast_common(t, t, namespace=ns),
        'prefix_errors': lambda t: optree.prefix_errors(t, t, namespace=ns),
        'tree_leaves': lambda t: optree.tree_leaves(t, namespace=ns),
        'tree_structure': lambda t: optree.tree_structure(t, namespace=ns),
        'tree_paths': lambda t: optree.tree_paths(t, namespace=ns),
        'tree_accessors': lambda t: optree.tree_accessors(t, namespace=ns),
        'tree_flatten_with_accessor': lambda t: optree.tree_flatten_with_accessor(t, namespace=ns),
        'tree_map_with_path': lambda t: optree.tree_map_with_path(lambda p, x: x, t, namespace=ns),
        # (operations that never call the flatten function of the node - tree_is_leaf, all_leaves, a rest under a leaf position - are not listed)
        'tree_map/same-rest': lambda t: optree.tree_map(lambda x, y: x, t, t, namespace=ns),
        'tree_transpose_map': lambda t: optree.tree_transpose_map(lambda x: t, [1, 2], namespace=ns),
        'tree_broadcast_prefix': lambda t: optree.tree_broadcast_prefix([t], [t], namespace=ns),
        'tree_reduce': lambda t: optree.tree_reduce(lambda a, b: a, t, None, namespace=ns),
    }
    for cls in U.BAD_CLASSES:
        if cls is U.BadRaises:
            continue
        for wrap in ('root', 'nested', 'root/0-children', 'nested/0-children'):
            if wrap.endswith('0-children') and cls is U.BadEntriesShort:
                continue  # with no children "one entry too few" is not expressible
            bad = cls([] if wrap.endswith('0-children') else [optree.treespec_leaf(), optree.treespec_leaf()])
            t = bad if wrap.startswith('root') else [bad]
            for name, fn in calls.items():
                if name in ('treespec_from_collection', 'tree_flatten_one_level') and wrap.startswith('nested'):
                    continue
                try:
                    fn(t)
                    out = 'returned'
                except Exception as e:  # noqa: BLE001
                    out = type(e).__name__
                    bases = [b.__name__ for b in type(e).__mro__]
                ok = out in ('RuntimeError', 'ValueError', 'TypeError')
                sink.check(ok, f'malformed/{cls.__name__}/{name}', 'malformed flatten returns raise RuntimeError / ValueError / TypeError, never an internal error', dict(cls=cls.__name__, call=name, wrap=wrap), out)
                sink.count('malformed-probes')
    class Lying(list):
        def __init__(self, xs, claim):
            super().__init__(xs)
            self.claim = claim

        def __len__(self):
            return self.claim

    for n_leaves, label in ((2, 'too-few'), (4, 'too-many'), (0, 'none')):
        for shape, mk in (('list', lambda n: list(range(n))), ('tuple', lambda n: tuple(range(n))), ('generator', lambda n: (i for i in range(n))), ('iterator', lambda n: iter(range(n))),
                          ('lying-len', lambda n: Lying(range(n), 3)), ('deque', lambda n: deque(range(n)))):
            for name, fn in (('unflatten', lambda xs: spec_ok.unflatten(xs)), ('tree_unflatten', lambda xs: optree.tree_unflatten(spec_ok, xs)),
                             ('traverse', lambda xs: spec_ok.traverse(xs)), ('walk', lambda xs: spec_ok.walk(xs)),
                             ('traverse/f', lambda xs: spec_ok.traverse(xs, lambda n_: n_, lambda x: x))):
                try:
                    fn(mk(n_leaves))
                    out = 'returned'
                except Exception as e:  # noqa: BLE001
                    out = type(e).__name__
                sink.check(out == 'ValueError', f'leaf-count/{label}/{name}', 'a wrong leaf count raises ValueError', dict(call=name, leaves=n_leaves, given_as=shape), out)
                sink.count('malformed-probes')


def shards(tier, seed):
    return [None]


def run_shard(sink, tier, seed, shard):
    variants = ['plain'] if tier == 'quick' else ['plain', 'asan']
    n = 8 if tier == 'quick' else 16
    nrand = {'plain': harness.scale(48, 5000, tier), 'asan': harness.scale(0, 1000, tier)}
    from concurrent.futures import ThreadPoolExecutor

    for variant in variants:
        log_path = os.path.join(build.VERIF, '.work', f'c15-{variant}-san') if variant != 'plain' else None
        env = build.env_for(variant, log_path=log_path)

        def one(i, env=env, variant=variant):
            s = type(sink)('x', 'x', 0, 'x')
            deaths = runner.run_journaled(s, 'vf.props.c15', dict(i=i, n=n, seed=seed, nrand=nrand[variant]), env=env, per_worker_timeout=1500)
            return s, deaths

        with ThreadPoolExecutor(n) as ex:
            results = list(ex.map(one, range(n)))
        from vf import run as vrun

        for s, deaths in results:
            vrun._merge(sink, vrun._dump(s))
            for d in deaths:
                case = d['case'] or {}
                if d['rc'] == 'timeout':
                    sink.notes.append(f'worker watchdog fired in {case} sub={d["sub"]}: inconclusive for that injection')
                    sink.count('worker-timeouts')
                    continue
                sink.violation(f'crash/{case.get("op")}/{d.get("signal") or d["rc"]}/{variant}', 'a failing callback must not kill the interpreter',
                               dict(case=case, k=d['sub'], variant=variant), d['stderr_tail'][-1500:])
        if variant != 'plain':
            from vf import sanlog

            for rep in sanlog.collect(log_path):
                sink.violation(f'sanitizer/{rep["kind"]}/{rep["frame"]}', 'no sanitizer report while unwinding from a failed callback', dict(variant=variant), rep['text'][:1500])
            sink.count(f'variant:{variant}')
    malformed(sink)


def finalize(sink, tier, seed):
    sink.require('injections', 1000)
    sink.require('injections/generated', 100)
    sink.require('malformed-probes')
    for site in ('pred', 'flatten', 'unflatten', 'f', 'f_node', 'f_leaf', 'key.__hash__', 'key.__eq__', 'key.__lt__', 'key.__repr__', 'meta.__eq__', 'meta.__repr__', 'namedtuple.__new__',
                 'entry.__init__', 'leaves.__next__'):
        sink.require(f'injections:{site}')
