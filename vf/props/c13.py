"""C13 - insertion-ordered dict mode is scoped to its namespace and with-block."""
from __future__ import annotations

import itertools
from collections import OrderedDict, defaultdict

import optree
import optree._C as _C
from optree.registry import __GLOBAL_NAMESPACE as GLOBAL

from vf import gen, harness, refmodel, same
from vf import universe as U

LEVEL = 'exploration'
EXHAUSTIVE = True
RULE = (
    'all well-nested programs of with dict_insertion_ordered(True|False, namespace in {global sentinel, a, b}) blocks exiting normally or by '
    'exception, up to the block / depth bound of the tier (quick: <= 3 blocks exhaustively + sampled 4-6 blocks; thorough: <= 4 blocks depth <= 4 '
    'exhaustively + sampled up to 8), executed with real with-blocks - and, for all programs of <= 2 (3) blocks plus the sampled ones, with the block '
    'entered as a decorator (fresh / ONE shared decorator object per label, re-entered while active), inside a generator that is closed, left by return, '
    'or through an ExitStack; at every enter / exit event the exact mode set is read for namespaces '
    '{global, a, b, zz} and dict-bearing trees are flattened in every namespace through every traversal and treespec constructor and compared '
    'with the reference under effective(ns) = ns in S or global in S. distinct = distinct programs; non-trivial = >= 2 blocks'
)
ASSUMPTIONS = [
    'model: S = set of insertion-ordered namespaces; on exit S must equal its value at the matching enter (snapshot comparison, not a re-implementation of save/restore)',
    'exact state is read with _C.is_dict_insertion_ordered(ns, inherit_global_namespace=False)',
    'single-threaded (the mode switch is documented as not thread-safe)',
]

NSS = ('', 'a', 'b', 'zz')


class Marker(Exception):
    pass


def ns_arg(ns):
    return GLOBAL if ns == '' else ns


class Block:
    __slots__ = ('mode', 'ns', 'exit', 'body')

    def __init__(self, mode, ns, exit_, body=()):
        self.mode, self.ns, self.exit, self.body = mode, ns, exit_, list(body)

    def short(self):
        return f'{"T" if self.mode else "F"}{self.ns or "G"}{"!" if self.exit == "raise" else ""}[' + ''.join(b.short() for b in self.body) + ']'


LABELS = [(m, ns, e) for m in (True, False) for ns in ('', 'a', 'b') for e in ('normal', 'raise')]


def forests(n_blocks, max_depth):
    """All ordered forests with exactly n_blocks nodes and depth <= max_depth (shapes only)."""
    if n_blocks == 0:
        yield []
        return
    if max_depth == 0:
        return
    # first tree has k nodes (1..n), rest forest has n-k
    for k in range(1, n_blocks + 1):
        for first_kids in forests(k - 1, max_depth - 1):
            for rest in forests(n_blocks - k, max_depth):
                yield [first_kids] + rest


def label(shape, labels_iter):
    return [Block(*next(labels_iter), body=label(kids, labels_iter)) for kids in shape]


def count_nodes(shape):
    return sum(1 + count_nodes(k) for k in shape)


def programs(max_blocks, max_depth):
    for n in range(1, max_blocks + 1):
        for shape in forests(n, max_depth):
            for labs in itertools.product(LABELS, repeat=n):
                yield label(shape, iter(labs))


def dict_trees(rng):
    """Dict-bearing trees observed at every step."""
    a, b, c, d, e = (U.Leaf(i) for i in range(5))
    fixed = [
        {'b': a, 'a': b, 'c': {'z': c, 'y': d}},
        defaultdict(int, [('q', a), ('p', b), (3, c)]),
        [OrderedDict([('y', a), ('x', b)]), {'n': c, 'm': d}],
        U.CSeq([{'k2': a, 'k1': b}, defaultdict(list, {'z': c, 'a': d})]),
        (U.Point({'y': a, 'x': b}, None), U.CNs([{'b': c, 'a': d}])),
    ]
    # containers whose current order differs from their storage order / their construction order
    od = OrderedDict([('y', a), ('x', b), ('w', c)])
    od.move_to_end('y')
    od.move_to_end('w', last=False)
    od2 = OrderedDict([(2, d), (1, e), (3, a)])
    od2.move_to_end(2)
    dd = {'k3': a, 'k1': b, 'k2': c}
    dd['k3'] = dd.pop('k3')  # delete + re-insert: now last
    df = defaultdict(lambda: e)
    df['z'] = a
    df['m']  # auto-inserted by a lookup
    df['a'] = b
    fixed.append([od, {'n': od2, 'b': dd}, df])
    desc, _ = gen.gen_desc(rng, 'dicts', 10)
    t, _ = gen.materialize(desc, rng)
    return fixed + [t]


STYLES = ('with', 'decorator', 'decorator-shared', 'generator-close', 'return-inside', 'exitstack')


class Runner:
    def __init__(self, sink, trees, ident, style='with', light=False):
        self.sink = sink
        self.trees = trees
        self.ident = ident
        self.S = set()  # model
        self.events = 0
        self.style = style  # how every block of the program is entered and left
        self.decos = {}  # decorator-shared: ONE dict_insertion_ordered(...) object per (mode, namespace), re-entered at every nesting level
        self.light = light

    def state(self):
        return {ns for ns in NSS if _C.is_dict_insertion_ordered(ns, inherit_global_namespace=False)}

    def observe(self, where):  # noqa: C901
        sink = self.sink
        self.events += 1
        got = self.state()
        sink.check(got == self.S, 'mode-set', 'the set of insertion-ordered namespaces equals the model', dict(self.ident, at=where), lambda: dict(got=sorted(got), want=sorted(self.S)))
        for ns in NSS:
            eff = ns in self.S or '' in self.S
            sink.check(_C.is_dict_insertion_ordered(ns) == eff, 'effective-mode', 'is_dict_insertion_ordered(ns) == ns in S or global in S', dict(self.ident, at=where, ns=ns))
            ident = dict(self.ident, at=where, ns=ns, effective=eff)
            for ti, tree in enumerate(self.trees):
                for nil in ((False, True) if ti < 2 else (False,)):
                    ro = refmodel.Opts(nil, ns, None, eff)
                    ref = refmodel.flatten(tree, ro)
                    want = [id(x) for x in ref.leaves]
                    kw = dict(none_is_leaf=nil, namespace=ns)
                    leaves, spec = optree.tree_flatten(tree, **kw)
                    sink.check([id(x) for x in leaves] == want, 'order/tree_flatten', 'dict children follow insertion order exactly in insertion-ordered namespaces', ident, lambda: (leaves, ref.leaves))
                    p, l2, s2 = optree.tree_flatten_with_path(tree, **kw)
                    sink.check([id(x) for x in l2] == want and s2 == spec, 'order/flatten_with_path', 'flatten_with_path follows the same order', ident)
                    sink.check([id(x) for x in optree.tree_iter(tree, **kw)] == want, 'order/tree_iter', 'tree_iter follows the same order', ident)
                    exp_ns = ns if (ref.found_custom or ns in self.S) else ''
                    exp_repr = refmodel.render_spec(ref.shape, nil, exp_ns)
                    sink.check(repr(spec) == exp_repr, 'order/treespec', 'the treespec records the keys in that order and the namespace', ident, lambda: (repr(spec), exp_repr))
                    back = spec.unflatten(leaves)
                    d = same.diff(tree, back)
                    sink.check(d is None, 'roundtrip', 'results still round-trip in either mode', ident, d)
            # treespec constructors and the python-visible lookup
            leaf = optree.treespec_leaf()
            src = {'b': leaf, 'a': optree.treespec_tuple([leaf, leaf]), 'c': leaf}
            want_keys = ['b', 'a', 'c'] if eff else ['a', 'b', 'c']
            for name, sp in (('treespec_dict', optree.treespec_dict(src, namespace=ns)),
                             ('treespec_defaultdict', optree.treespec_defaultdict(int, src, namespace=ns)),
                             ('treespec_from_collection', optree.treespec_from_collection(dict(src), namespace=ns)),
                             ('treespec_from_collection/defaultdict', optree.treespec_from_collection(defaultdict(int, src), namespace=ns))):
                sink.check(sp.entries() == want_keys, f'ctor/{name}', 'treespec constructors read the same mode', ident, lambda: (sp.entries(), want_keys))
            mixed_keys = ['zeta', 'mid', 'alpha'] if eff else ['alpha', 'mid', 'zeta']
            for name, mk in (('treespec_dict/pairs+keywords', lambda: optree.treespec_dict([('zeta', leaf), ('mid', optree.treespec_tuple([leaf]))], alpha=leaf, namespace=ns)),
                             ('treespec_dict/mapping+keywords', lambda: optree.treespec_dict({'zeta': leaf, 'mid': leaf}, alpha=leaf, namespace=ns)),
                             ('treespec_defaultdict/pairs+keywords', lambda: optree.treespec_defaultdict(int, [('zeta', leaf), ('mid', leaf)], alpha=leaf, namespace=ns))):
                sp_m = mk()
                sink.check(sp_m.entries() == mixed_keys, f'ctor/{name}', 'positional entries come first, keyword children after (insertion order) - or everything sorted when the mode is off', ident,
                           lambda: (sp_m.entries(), mixed_keys))
            sp = optree.treespec_ordereddict(OrderedDict(src), namespace=ns)
            sink.check(sp.entries() == ['b', 'a', 'c'], 'ctor/ordereddict-unaffected', 'OrderedDict is unaffected either way', ident)
            one = optree.tree_flatten_one_level({'b': 1, 'a': 2}, namespace=ns)
            sink.check(list(one.entries) == (['b', 'a'] if eff else ['a', 'b']) and list(one.children) == ([1, 2] if eff else [2, 1]), 'python/flatten_one_level', 'tree_flatten_one_level reflects the current mode', ident, lambda: one)
            for cls, mk in ((dict, lambda: {'b': 1, 'a': 2}), (defaultdict, lambda: defaultdict(int, {'b': 1, 'a': 2}))):
                h = optree.register_pytree_node.get(cls, namespace=ns)
                ch = list(h.flatten_func(mk())[0])
                sink.check(ch == ([1, 2] if eff else [2, 1]), f'python/get({cls.__name__})', 'register_pytree_node.get(dict/defaultdict) reflects the current mode', ident, lambda: ch)
                h2 = optree.register_pytree_node.get(namespace=ns)[cls]
                sink.check(list(h2.flatten_func(mk())[0]) == ch, f'python/get()[{cls.__name__}]', 'the dict view of the registry reflects the current mode', ident)
        sink.count('observation-events')

    def run_block(self, b):  # noqa: C901
        import contextlib

        before = set(self.S)
        style = self.style

        def body():
            (self.S.add if b.mode else self.S.discard)(b.ns)
            self.observe(f'enter {b.short()}')
            for inner in b.body:
                self.run_block(inner)
            if b.exit == 'raise':
                raise Marker

        try:
            if style == 'with':
                with optree.dict_insertion_ordered(b.mode, namespace=ns_arg(b.ns)):
                    body()
            elif style == 'decorator':
                # the context manager used as a decorator (contextlib.ContextDecorator protocol), a fresh one per block
                optree.dict_insertion_ordered(b.mode, namespace=ns_arg(b.ns))(body)()
            elif style == 'decorator-shared':
                # one decorator object per (mode, namespace) for the whole program: nested blocks with the same label re-enter it while it is
                # active (a decorated function that recurses or is re-entered through a callback), later blocks reuse it
                deco = self.decos.get((b.mode, b.ns))
                if deco is None:
                    deco = self.decos[(b.mode, b.ns)] = optree.dict_insertion_ordered(b.mode, namespace=ns_arg(b.ns))
                deco(body)()
            elif style == 'generator-close':
                # the block lives in a generator that is suspended inside it and then closed (GeneratorExit is thrown at the yield)
                def g():
                    with optree.dict_insertion_ordered(b.mode, namespace=ns_arg(b.ns)):
                        body()
                        yield 1
                        raise AssertionError('resumed')

                it = g()
                next(it)
                it.close()
            elif style == 'return-inside':
                def f():
                    with optree.dict_insertion_ordered(b.mode, namespace=ns_arg(b.ns)):
                        body()
                        return 1
                    return 0  # pragma: no cover

                f()
            elif style == 'exitstack':
                with contextlib.ExitStack() as st:
                    st.enter_context(optree.dict_insertion_ordered(b.mode, namespace=ns_arg(b.ns)))
                    body()
            else:
                raise AssertionError(style)
        except Marker:
            pass
        self.S = before  # specification: on exit every namespace has the mode it had at enter
        self.observe(f'exit {b.short()}')


def run_program(sink, prog, trees, tag, style='with'):
    ident = dict(program=''.join(b.short() for b in prog), kind=tag, entered_by=style)
    r = Runner(sink, trees, ident, style)
    initial = r.state()
    r.S = set(initial)
    try:
        for b in prog:
            r.run_block(b)
        final = r.state()
        sink.check(final == initial, 'final-state', 'after the outermost exit the mode set equals its initial value', ident, lambda: (sorted(final), sorted(initial)))
    finally:
        for ns in NSS:
            _C.set_dict_insertion_ordered(False, ns)
    n = sum(1 + _cnt(b) for b in prog)
    sink.case(ident['program'] + ('' if style == 'with' else '/' + style), n >= 2, ident if n >= 3 else None)
    sink.cell('blocks', n)
    sink.cell('kind', tag)
    sink.cell('entered-by', style)
    sink.count(f'style:{style}')


def _cnt(b):
    return sum(1 + _cnt(x) for x in b.body)


def shards(tier, seed):
    n = 8 if tier == 'quick' else 16
    return [dict(i=i, n=n) for i in range(n)]


def rand_program(rng, max_blocks, max_depth):
    n = rng.randrange(3, max_blocks + 1)
    shapes = list(forests(n, max_depth))
    shape = rng.choice(shapes)
    return label(shape, iter([rng.choice(LABELS) for _ in range(n)]))


def run_shard(sink, tier, seed, shard):
    i0, n = shard['i'], shard['n']
    rng = gen.case_rng(seed, 'c13', i0)
    trees = dict_trees(rng)
    max_blocks, max_depth = (3, 3) if tier == 'quick' else (4, 4)
    for j, prog in enumerate(programs(max_blocks, max_depth)):
        if j % n == i0:
            run_program(sink, prog, trees, 'exhaustive')
    # every other way of entering / leaving a block: all programs of <= 2 blocks (thorough: <= 3) exhaustively per style, sampled ones by the case rng
    for style in STYLES[1:]:
        for j, prog in enumerate(programs(2 if tier == 'quick' else 3, 3)):
            if j % n == i0:
                run_program(sink, prog, trees, 'exhaustive', style)
    n_samp = harness.scale(400, 30000, tier)
    for k in range(i0, n_samp, n):
        r = gen.case_rng(seed, 'c13s', k)
        prog = rand_program(r, 6 if tier == 'quick' else 8, 4)
        run_program(sink, prog, trees, 'sampled', r.choice(STYLES))
    sink.extra['bound'] = dict(max_blocks_exhaustive=max_blocks, max_depth=max_depth)


def finalize(sink, tier, seed):
    sink.require('observation-events', 1000)
    for st in STYLES:
        sink.require(f'style:{st}', 20)
