"""C06 - treespec equality means same structure, and equal treespecs hash equally."""
from __future__ import annotations

import copy
import pickle

import optree
from optree.registry import __GLOBAL_NAMESPACE as GLOBAL

from vf import gen, harness, refmodel
from vf import universe as U

LEVEL = 'exploration'
RULE = (
    'pairs (t, t\') with t\' in {re-materialised copy, insertion-order permutation, neutral edit (dict kind / factory / maxlen), exactly one '
    'breaking local edit, unrelated tree} x option pairs (same / other namespace incl. unknown / other none_is_leaf / other dict mode / '
    'other predicate); equality predicted by the reference model; hash contract checked whenever the implementation answers ==; 9 '
    'construction routes of one structure compared pairwise. distinct = distinct (desc, desc\', options pair); non-trivial = >= 2 internal nodes'
)
ASSUMPTIONS = [
    'expected equality = same none_is_leaf, compatible namespaces (equal or one empty), equal reference shapes (node type, arity, keys, metadata, same registration)',
    'dict-order independence is only asserted in sorted mode with totally ordered keys (as the statement says); other cases follow the reference shape',
]


def shards(tier, seed):
    n = 8 if tier == 'quick' else 16
    return [dict(i=i, n=n) for i in range(n)]


RELATIONS = ('same', 'reorder', 'neutral', 'break', 'unrelated', 'same', 'reorder')
OPT_REL = ('same', 'same', 'ns', 'nil', 'mode', 'pred', 'ns')


def ns_compatible(a, b):
    return not a or not b or a == b


def flatten_with(tree, o):
    with o.ctx():
        ref = refmodel.flatten(tree, o.ref())
        leaves, spec = optree.tree_flatten(tree, **o.kw())
    return ref, spec, refmodel.expected_namespace(ref, o.ref(), o.ins_in_current_ns)


def has_nonreflexive_key(sh):
    if sh.kind in ('dict', 'ordereddict', 'defaultdict') and any(k != k for k in sh.entries):
        return True
    return any(has_nonreflexive_key(c) for c in sh.children)


def routes(spec, o, tree, nonreflexive=False):
    """Other construction routes of the same structure."""
    out = {}
    out['copy'] = copy.copy(spec)
    out['deepcopy'] = copy.deepcopy(spec)
    if not nonreflexive:
        try:
            out['pickle'] = pickle.loads(pickle.dumps(spec))
        except pickle.PicklingError:
            pass  # python cannot pickle some struct-sequence classes by reference (sys.int_info); C11 covers pickling
    out['transform-identity'] = spec.transform(lambda s: s, lambda s: s)
    out['transform-none'] = spec.transform()
    leafspec = optree.treespec_leaf(none_is_leaf=o.none_is_leaf)
    out['compose-leaf'] = spec.compose(leafspec)
    out['leaf-compose'] = leafspec.compose(spec)
    out['broadcast-self'] = spec.broadcast_to_common_suffix(spec)
    out['broadcast-leaf'] = spec.broadcast_to_common_suffix(leafspec)
    out['leaf-broadcast'] = leafspec.broadcast_to_common_suffix(spec)
    with o.ctx():
        out['reflatten'] = optree.tree_structure(tree, **o.kw())
        if spec.num_children or not spec.is_leaf():
            one = spec.one_level()
            if one is not None:
                it = iter(spec.children())
                out['one_level+children'] = one.transform(None, lambda s: next(it))
    return out


def check_pair(sink, seed, idx):  # noqa: C901
    rng = gen.case_rng(seed, 'c06', idx)
    rel = RELATIONS[idx % len(RELATIONS)]
    orel = OPT_REL[(idx // len(RELATIONS)) % len(OPT_REL)]
    profile = rng.choice(gen.PROFILE_NAMES)  # independent of the relation (an index-modulo choice would tie one relation to one profile)
    d1, _ = gen.gen_desc(rng, profile, 14)
    if rel in ('same', 'reorder'):
        d2 = d1.copy()
        if rel == 'reorder':
            for node in d2.walk():
                if node.k in gen.DICTS and len(node.items) > 1:
                    rng.shuffle(node.items)
    elif rel == 'neutral':
        d2, _ = gen.neutral_edit(d1, rng)
    elif rel == 'break':
        d2, edit = gen.breaking_edit(d1, rng)
        if d2 is None:
            d2 = d1.copy()
        sink.count(f'break-edit:{edit}')
    else:
        d2, _ = gen.gen_desc(rng, profile, 14)
    t1, m1 = gen.materialize(d1, rng)
    t2, m2 = gen.materialize(d2, rng)
    o1 = gen.rand_opt(rng, preds=('none', 'none', 'none', 'is_list', 'pair', 'custom'))
    o2 = gen.Opt(o1.none_is_leaf, o1.namespace, o1.pred, o1.dict_mode)
    if orel == 'ns':
        o2 = gen.Opt(o1.none_is_leaf, rng.choice([n for n in U.NAMESPACES if n != o1.namespace]), o1.pred, o1.dict_mode)
    elif orel == 'nil':
        o2 = gen.Opt(not o1.none_is_leaf, o1.namespace, o1.pred, o1.dict_mode)
    elif orel == 'mode':
        o2 = gen.Opt(o1.none_is_leaf, o1.namespace, o1.pred, rng.choice([m for m in gen.DICT_MODES if m != o1.dict_mode]))
    elif orel == 'pred':
        o2 = gen.Opt(o1.none_is_leaf, o1.namespace, rng.choice(['none', 'is_list', 'dictish', 'pair']), o1.dict_mode)
    ident = dict(gen='c06', seed=seed, index=idx, relation=rel, opt_relation=orel, d1=d1.short()[:250], d2=d2.short()[:250], o1=repr(o1), o2=repr(o2))
    r1, s1, ns1 = flatten_with(t1, o1)
    r2, s2, ns2 = flatten_with(t2, o2)
    want = o1.none_is_leaf == o2.none_is_leaf and ns_compatible(ns1, ns2) and refmodel.equal_shapes(r1.shape, r2.shape)
    eq12 = s1 == s2
    eq21 = s2 == s1
    nskey = 'ns-wildcard' if (ns1 != ns2) else 'same-ns'
    sink.check(eq12 == want, f'eq-vs-reference/{rel}/{nskey}', 'treespec == agrees with the reference prediction', ident, lambda: dict(got=eq12, want=want, s1=str(s1), s2=str(s2)))
    sink.check(eq12 == eq21, 'eq-symmetric', '== is symmetric', ident, lambda: (eq12, eq21))
    sink.check((s1 != s2) == (not eq12) and (s2 != s1) == (not eq21), 'ne-negation', '!= is the negation of ==', ident)
    sink.check(s1 == s1 and s2 == s2 and not (s1 != s1), 'eq-reflexive', '== is reflexive', ident)
    if eq12:
        sink.count('equal-pairs')
        if ns1 != ns2:
            sink.count('equal-pairs-across-namespaces')
        sink.check(hash(s1) == hash(s2), f'hash-contract/{nskey}', 'a == b implies hash(a) == hash(b)', ident, lambda: dict(s1=str(s1), s2=str(s2), h1=hash(s1), h2=hash(s2)))
        sink.check(len({s1, s2}) == 1 and {s1: 1}.get(s2) == 1, f'set-member/{nskey}', 'equal treespecs collapse in sets / work as dict keys', ident, lambda: dict(s1=str(s1), s2=str(s2)))
    else:
        sink.count('unequal-pairs')
    # construction routes of the same structure
    if idx % 3 == 0:
        rts = routes(s1, o1, t1, nonreflexive=has_nonreflexive_key(r1.shape))
        for name, s in rts.items():
            sink.check(s == s1 and s1 == s and hash(s) == hash(s1), f'route/{name}', f'route {name} yields an equal treespec with equal hash', ident, lambda: dict(route=name, got=str(s), want=str(s1)))
            sink.check(repr(s) == repr(s1), f'route-repr/{name}', f'route {name} yields the same repr', ident, lambda: dict(route=name, got=str(s), want=str(s1)))
        sink.count('route-sets')
        # transitivity inside one namespace: s1 == route == s2 -> s1 == s2
        if eq12:
            sink.check(all(s == s2 for s in rts.values()), 'transitive', '== is transitive within a namespace', ident)
    # route: broadcast against a twin of the same tree whose dicts were filled in another order and flattened in insertion-ordered mode
    # (same key sets, another STORED order): the result is s1 again, with s1's key order
    if idx % 2 == 0 and not has_nonreflexive_key(r1.shape):
        d_tw = d1.copy()
        for node in d_tw.walk():
            if node.k in gen.DICTS and len(node.items) > 1:
                rng.shuffle(node.items)
        t_tw, _ = gen.materialize(d_tw, rng)
        with optree.dict_insertion_ordered(True, namespace=GLOBAL):
            s_tw = optree.tree_structure(t_tw, **o1.kw())
            r_tw = refmodel.flatten(t_tw, refmodel.Opts(o1.none_is_leaf, o1.namespace, o1.is_leaf, True))
        try:
            want_shape = refmodel.lub(r1.shape, r_tw.shape)
        except ValueError:
            want_shape = None
        if want_shape is not None and refmodel.equal_shapes(want_shape, r1.shape):
            for name, a, b in (('broadcast-reordered-twin', s1, s_tw), ('reordered-twin-broadcast', s_tw, s1)):
                try:
                    res = a.broadcast_to_common_suffix(b)
                    # (the namespace shown by repr may legitimately be taken over from the other operand; the key order is observed through paths())
                    ok = res == a and a == res and hash(res) == hash(a) and res.paths() == a.paths() and res.num_nodes == a.num_nodes
                    got = repr(res)
                except Exception as e:  # noqa: BLE001
                    ok, got = False, repr(e)
                sink.check(ok, f'route/{name}', 'broadcasting against a twin with the same key sets in another stored order gives the treespec back (equal, same hash, own key order)', ident,
                           lambda: dict(got=got[-120:], want=repr(a)[-120:], twin=repr(b)[-120:], eq=(res == a), heq=(hash(res) == hash(a))))
            sink.count('reordered-twin-broadcasts')
    sink.cell('rel', rel, orel)
    sink.cell('rel-profile', rel, profile)
    sink.cell('expected', want)
    sink.case(harness.fp(d1.short(), d2.short(), o1.key(), o2.key()), r1.shape.internal_nodes() >= 2, dict(ident, equal=eq12, s1=str(s1)[:200], s2=str(s2)[:200]))


class FKey:
    """dict key whose __hash__ can be armed to fail once."""

    armed = [0]

    def __init__(self, v):
        self.v = v

    def __hash__(self):
        if FKey.armed[0] > 0:
            FKey.armed[0] -= 1
            raise RuntimeError('armed key hash')
        return hash(('FKey', self.v))

    def __eq__(self, o):
        return type(o) is FKey and o.v == self.v

    def __lt__(self, o):
        return self.v < o.v

    def __repr__(self):
        return f'FKey({self.v})'


def hash_history_case(sink, seed, idx):
    """The hash contract must also hold after a hash() that failed (and for treespecs that are later
    allocated at the address of one whose hash failed)."""
    from collections import OrderedDict, defaultdict

    rng = gen.case_rng(seed, 'c06hist', idx)
    n = rng.randrange(1, 5)
    keys = [FKey(i) for i in rng.sample(range(50), n)]
    kind = rng.choice([dict, OrderedDict, 'dd'])

    def mk():
        items = [(FKey(k.v), [U.Leaf(0), (1,)] if j % 2 else U.Leaf(j)) for j, k in enumerate(keys)]
        inner = defaultdict(int, items) if kind == 'dd' else kind(items)
        return [inner, {'w': U.CSeq([inner])}] if idx % 2 else inner

    a, b = optree.tree_structure(mk()), optree.tree_structure(mk())
    ident = dict(gen='c06hist', seed=seed, index=idx, keys=n, kind=str(kind))
    good = hash(b)
    sink.check(a == b and hash(a) == good, 'hash-history/before', 'equal treespecs hash equally', ident)
    FKey.armed[0] = rng.randrange(1, 3)
    try:
        hash(a)
        raised = False
    except RuntimeError:
        raised = True
    FKey.armed[0] = 0
    sink.check(raised, 'hash-history/failure-propagates', 'a failing key hash propagates out of hash(treespec)', ident)
    h2 = hash(a)
    sink.check(a == b and h2 == good and len({a, b}) == 1, 'hash-history/after-failed-hash', 'a == b implies hash(a) == hash(b), also after an earlier hash(a) raised', ident, lambda: (h2, good))
    # address reuse: drop `a`, allocate fresh equal treespecs
    del a
    fresh = [optree.tree_structure(mk()) for _ in range(6)]
    bad = [hash(c) for c in fresh if not (c == b and hash(c) == good)]
    sink.check(not bad, 'hash-history/fresh-after-failed-hash', 'fresh treespecs equal to b hash like b (even at the address of a treespec whose hash failed)', ident, lambda: (bad, good))
    sink.count('hash-history-cases')
    sink.case(harness.fp('hist', idx % 64, n, str(kind)), True, ident if idx < 2 else None)


NUM_KEYS = [-1, 0, 1, 2, -2, 7, 255, 256, 257, 10**6, 2**31, 2**61 - 2, 2**61 - 1, 2**61, 2**61 + 1, 2**62, -(2**61), -(2**61 - 1), 2**63 - 1, 2**63, 2**64, -(2**63), 10**30]


def numeric_twin_case(sink, seed, idx):  # noqa: C901
    """Keys that compare equal across numeric types (int / bool / float / Fraction / Decimal / an int subclass): python guarantees equal
    hashes for them, so treespecs whose key lists compare equal must hash equally too - whatever shortcut the engine takes per key type."""
    import decimal
    import fractions
    from collections import OrderedDict, defaultdict

    rng = gen.case_rng(seed, 'c06num', idx)
    n = rng.randrange(1, 5)
    ks = rng.sample(NUM_KEYS, n)
    twin_t = rng.choice(['float', 'Fraction', 'Decimal', 'IntSub', 'bool-where-possible', 'same'])

    def twin(k):
        if twin_t == 'float':
            return float(k) if float(k) == k else k
        if twin_t == 'Fraction':
            return fractions.Fraction(k)
        if twin_t == 'Decimal':
            return decimal.Decimal(k)
        if twin_t == 'IntSub':
            return gen.IntSub(k)
        if twin_t == 'bool-where-possible':
            return bool(k) if k in (0, 1) else k
        return int(str(k))  # an equal int object built separately

    kind = rng.choice(['dict', 'odict', 'ddict'])
    nil = rng.random() < 0.3

    def build(keys):
        pairs = [(k, U.Leaf(i) if i % 2 else [U.Leaf(i), None]) for i, k in enumerate(keys)]
        d = dict(pairs) if kind == 'dict' else OrderedDict(pairs) if kind == 'odict' else defaultdict(list, pairs)
        return [d, (d,)] if idx % 2 else d

    t1, t2 = build(ks), build([twin(k) for k in ks])
    ident = dict(gen='c06num', seed=seed, index=idx, keys=repr(ks), twin=twin_t, kind=kind, nil=nil)
    s1 = optree.tree_structure(t1, none_is_leaf=nil)
    s2 = optree.tree_structure(t2, none_is_leaf=nil)
    eq = s1 == s2
    sink.check(eq == (s2 == s1) and (s1 != s2) == (not eq), 'numeric-twins/eq-symmetric', '== is symmetric and != its negation', ident)
    sink.check(eq, 'numeric-twins/eq', 'treespecs whose dict keys compare equal (and everything else agrees) are equal', ident, lambda: (repr(s1), repr(s2)))
    if eq:
        sink.check(hash(s1) == hash(s2), 'numeric-twins/hash-contract', 'a == b implies hash(a) == hash(b)', ident, lambda: (repr(s1), repr(s2), hash(s1), hash(s2)))
        sink.check(len({s1, s2}) == 1 and {s1: 1}.get(s2) == 1, 'numeric-twins/set-member', 'equal treespecs collapse in sets / work as dict keys', ident)
    sink.count('numeric-twin-pairs')
    sink.count(f'numeric-twin:{twin_t}')
    sink.case(harness.fp('num', repr(ks), twin_t, kind, nil, idx % 2), n >= 2, ident if idx < 3 else None)


def run_shard(sink, tier, seed, shard):
    n = harness.scale(50000, 700000, tier)
    i0, step = (shard or {}).get('i', 0), (shard or {}).get('n', 1)
    for idx in range(i0, n, step):
        sink.guard('harness', 'pair', dict(index=idx), lambda: check_pair(sink, seed, idx))
    for idx in range(i0, harness.scale(800, 20000, tier), step):
        sink.guard('harness', 'hash-history', dict(index=idx), lambda: hash_history_case(sink, seed, idx))
    for idx in range(i0, harness.scale(4000, 100000, tier), step):
        sink.guard('harness', 'numeric-twins', dict(index=idx), lambda: numeric_twin_case(sink, seed, idx))


def finalize(sink, tier, seed):
    for e in gen.BREAK_EDITS:
        if e != 'leaf2none':
            sink.require(f'break-edit:{e}', 20)
    sink.require('equal-pairs', 100)
    sink.require('unequal-pairs', 100)
    sink.require('route-sets')
    sink.require('equal-pairs-across-namespaces')
    sink.require('hash-history-cases')
    sink.require('reordered-twin-broadcasts', 500)
    sink.require('numeric-twin-pairs', 500)
