"""C20 - tree_ravel and its unravel function are mutually inverse (numpy / jax / torch)."""
from __future__ import annotations

import json
import os
import subprocess
import sys
import tempfile
import warnings

from vf import verdict

LEVEL = 'exploration'
RULE = (
    'generated pytrees whose leaves are arrays of rank 0-3 incl. zero-size and scalar shapes, dtypes drawn from bool / (u)int8-64 / float16-64 / '
    'complex64-128 (what the backend supports) in every order, None nodes, custom nodes, none_is_leaf x namespace; backends numpy, jax (x64 '
    'off; thorough also on), torch, one subprocess each; post-conditions attached to the real tree_ravel (icontract.ensure when available) and '
    'to every call of the returned unravel function. distinct = distinct (tree description, leaf shapes/dtypes, options); non-trivial = >= 2 '
    'leaves with >= 2 distinct dtypes or a zero-size / rank-0 leaf'
)
ASSUMPTIONS = [
    'leaves are backend arrays as the property quantifies; python scalars as numpy ArrayLike leaves are not generated (observed: under NumPy 2 weak promotion a python float leaf is promoted weakly by result_type(*leaves) but restored as float64, so ravel(unravel(v)) changes dtype)',
    'the promoted dtype reference uses the backend\'s own promotion API (np.result_type / jnp.result_type / torch.promote_types), independently of _ravel_leaves',
    'the value round trip ravel(unravel(v)) == v is asserted for v whose values are representable in every leaf dtype (0/1 valued vectors), as the statement says',
    'comparisons are bit-exact and NaN-aware',
]

BACKENDS = ('numpy', 'jax', 'torch')


def shards(tier, seed):
    return [None]


def run_shard(sink, tier, seed, shard):
    from concurrent.futures import ThreadPoolExecutor

    from vf import run as vrun

    jobs = [('numpy', {}), ('jax', {'JAX_ENABLE_X64': '0'}), ('torch', {})]
    if tier != 'quick':
        jobs.append(('jax', {'JAX_ENABLE_X64': '1'}))
        jobs += [('numpy', {'C20_PART': '1'}), ('torch', {'C20_PART': '1'})]
    work = tempfile.mkdtemp(prefix='c20-', dir=os.path.join(verdict.VERIF, '.work'))

    def one(job):
        backend, extra = job
        out = os.path.join(work, f'{backend}-{len(extra)}-{extra.get("JAX_ENABLE_X64", "")}{extra.get("C20_PART", "")}.json')
        env = dict(os.environ)
        env.update(extra)
        env.setdefault('JAX_PLATFORMS', 'cpu')
        env['OMP_NUM_THREADS'] = '1'
        p = subprocess.run([sys.executable, '-m', 'vf.props.c20_worker', backend, tier, str(seed), out], env=env, capture_output=True, text=True, timeout=3400)
        return job, p.returncode, p.stderr[-2500:], out

    with ThreadPoolExecutor(len(jobs)) as ex:
        for (backend, extra), rc, err, out in ex.map(one, jobs):
            if rc == 0 and os.path.exists(out):
                with open(out) as f:
                    vrun._merge(sink, json.load(f))
                sink.count(f'backend-runs:{backend}')
            else:
                sink.violation(f'worker-death/{backend}/rc={rc}', 'the backend worker completes', dict(backend=backend, env=extra), err)
    import shutil

    shutil.rmtree(work, ignore_errors=True)


def finalize(sink, tier, seed):
    for b in BACKENDS:
        sink.require(f'backend-runs:{b}')
        sink.require(f'ravel-calls:{b}', 100)
        sink.require(f'unravel-calls:{b}', 100)
        sink.require(f'mixed-dtype-trees:{b}', 20)
        sink.require(f'empty-trees:{b}')
        sink.require(f'zero-size-leaves:{b}')
        sink.require(f'rejections:shape:{b}')
        sink.require(f'rejections:dtype:{b}')
        for vname in ('offset-slice', 'strided', 'batch-row'):
            sink.require(f'vector-view:{b}:{vname}', 50)
        if b != 'jax':
            sink.require(f'leaf-layout:{b}:strided', 20)
            sink.require(f'leaf-layout:{b}:permuted', 5)
    sink.require('x64-toggles', 20)
