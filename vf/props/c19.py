"""C19 - optree dataclasses and optree partial are faithful pytree nodes."""
from __future__ import annotations

import dataclasses
import functools
import inspect
import itertools
import random
import typing

import optree
from optree.registry import __GLOBAL_NAMESPACE as GLOBAL

from vf import gen, harness, refmodel, same
from vf import universe as U

LEVEL = 'exploration'
RULE = (
    'generated field layouts (<= 3 fields quick / <= 5 thorough; per field: default none/value/factory, init, pytree_node True/False/unset, '
    'kw_only, optree.field vs dataclasses.field vs bare annotation) x decorator flags (frozen, slots, kw_only, eq, order, unsafe_hash) x '
    'inheritance from optree / plain dataclasses (depth <= 2) x routes {decorator, decorator factory, make_dataclass} x namespaces; field values '
    'are generated pytrees; reference partition children / metadata / entries from the documentation; twin comparison with dataclasses.dataclass; '
    'random optree partials over partials with positional / keyword pytrees. distinct = distinct (layout, flags, route) / partial shapes; '
    'non-trivial = >= 2 fields or a nested partial'
)
ASSUMPTIONS = [
    'expected partition: pytree_node fields (default True) in dataclasses.fields() order are children; other init fields are metadata; non-init non-node fields are neither',
    'when eq=False the rebuilt instance is compared field by field (identity of leaves) instead of ==',
]


def shards(tier, seed):
    n = 1 if tier == 'quick' else 16
    return [dict(i=i, n=n) for i in range(n)]


INTERNAL = (SystemError, MemoryError, RecursionError)
POST = {}
IV = {}


def make_layout(rng, max_fields):
    n = rng.randrange(0, max_fields + 1)
    fields = []
    for i in range(n):
        f = dict(
            name=f'f{i}',
            default=rng.choice(['none', 'none', 'value', 'factory']),
            init=rng.random() < 0.85,
            pytree_node=rng.choice([True, False, None, None]),
            kw_only=rng.choice([None, None, True, False]),
            how=rng.choice(['optree', 'optree', 'plain', 'bare']),
        )
        if f['how'] == 'bare':
            f['init'], f['pytree_node'], f['kw_only'] = True, None, None
            if f['default'] == 'factory':
                f['default'] = 'value'
        if not f['init'] and f['default'] == 'none':
            f['default'] = 'value'  # a non-init field needs a default to be constructible
        fields.append(f)
    flags = dict(frozen=rng.random() < 0.25, slots=rng.random() < 0.25, kw_only=rng.random() < 0.2, eq=rng.random() < 0.85, order=False, unsafe_hash=rng.random() < 0.15)
    if flags['eq'] and rng.random() < 0.2:
        flags['order'] = True
    if rng.random() < 0.15:
        flags['match_args'] = False
    if flags['slots'] and rng.random() < 0.3:
        flags['weakref_slot'] = True
    return fields, flags


def make_extras(rng):
    """Pseudo-fields and sentinels of the dataclass machinery: ClassVar (no field), InitVar with a default (no field, passed to
    __post_init__), the KW_ONLY sentinel followed by one more ordinary field."""
    return dict(classvar=rng.random() < 0.3, initvar=rng.random() < 0.3, kw_sentinel=rng.random() < 0.3, shared_metadata=({'unit': 'm', 7: None} if rng.random() < 0.4 else None))


def order_fields(fields, flags):
    """dataclasses requires non-default positional fields before default ones."""
    def is_kw(f):
        return f['kw_only'] is True or (f['kw_only'] is None and flags['kw_only'])

    pos_nodef = [f for f in fields if not is_kw(f) and f['default'] == 'none' and f['init']]
    rest = [f for f in fields if f not in pos_nodef]
    return pos_nodef + rest


def build_namespace(fields, use_optree_field, extras=None):
    """Class body dict for the layout; returns (annotations, attrs, expect_field_error)."""
    ann, attrs = {}, {}
    err = None
    for f in fields:
        ann[f['name']] = object
        if f['how'] == 'bare':
            if f['default'] == 'value':
                attrs[f['name']] = ('dflt', f['name'])
            continue
        kw = {}
        if f['default'] == 'value':
            kw['default'] = ('dflt', f['name'])
        elif f['default'] == 'factory':
            kw['default_factory'] = list
        kw['init'] = f['init']
        if f['kw_only'] is not None:
            kw['kw_only'] = f['kw_only']
        if f['how'] == 'optree' and use_optree_field:
            if f['pytree_node'] is not None:
                kw['pytree_node'] = f['pytree_node']
            if extras and extras.get('shared_metadata') is not None:
                kw['metadata'] = extras['shared_metadata']  # ONE user dict handed to every optree field() call of the layout
            try:
                attrs[f['name']] = optree.dataclasses.field(**kw)
            except TypeError as e:
                err = e
                return ann, attrs, err
        else:
            md = {} if f['pytree_node'] is None else {'pytree_node': f['pytree_node']}
            attrs[f['name']] = dataclasses.field(metadata=md, **kw)
    extras = extras or {}
    if extras.get('classvar'):
        ann['cv'] = typing.ClassVar[int]
        attrs['cv'] = 5
    if extras.get('initvar'):
        ann['iv'] = dataclasses.InitVar[object]
        attrs['iv'] = dataclasses.field(default='ivd', kw_only=True)
    if extras.get('kw_sentinel'):
        ann['_'] = dataclasses.KW_ONLY
        ann['kz'] = object
        attrs['kz'] = ('dflt', 'kz')
    return ann, attrs, err


def effective_node(f):
    return True if f['pytree_node'] is None else f['pytree_node']


def dataclass_case(sink, seed, idx, max_fields):  # noqa: C901
    rng = gen.case_rng(seed, 'c19', idx)
    fields, flags = make_layout(rng, max_fields)
    fields = order_fields(fields, flags)
    extras = make_extras(rng)
    route = ['decorator', 'factory', 'make_dataclass'][idx % 3]
    if idx % 12 == 11:
        route = 'make_dataclass-swapped'  # the documented compatibility path: ns=<pytree namespace>, namespace=<class body dict>
    ns = rng.choice(['dcns', 'dcns2', GLOBAL])
    nskey = '' if ns is GLOBAL else ns
    inherit = rng.choice([None, None, 'optree', 'plain', 'optree-redeclare', 'two-optree'])
    ident = dict(gen='c19', seed=seed, index=idx, fields=[{k: v for k, v in f.items()} for f in fields], flags=flags, extras=extras, route=route, ns=repr(ns), inherit=inherit)
    key = f'dc{idx}'
    POST[key] = 0

    IV[key] = []

    def post_init(self, *iv, key=key):
        POST[key] += 1
        IV[key].append(iv)

    # ---- base class
    bases = ()
    base_fields = []
    if inherit:
        bann = {'b0': object, 'b1': object}
        battrs = {'b1': dataclasses.field(default='bd', metadata={'pytree_node': False})}
        Base = type(f'Base{idx}', (), dict(__annotations__=bann, **battrs))
        if inherit != 'plain':
            Base = optree.dataclasses.dataclass(Base, namespace=ns, kw_only=True)
        else:
            Base = dataclasses.dataclass(Base, kw_only=True)
        bases = (Base,)
        base_fields = [dict(name='b0', default='none', init=True, pytree_node=None, kw_only=True, how='bare'), dict(name='b1', default='value', init=True, pytree_node=False, kw_only=True, how='plain')]
        if inherit == 'two-optree':
            # a second optree dataclass base: dataclasses collects fields in reverse MRO order (BaseB's first)
            BaseB = type(f'BaseB{idx}', (), dict(__annotations__={'c0': object, 'c1': object}, c0=dataclasses.field(default='cd', metadata={'pytree_node': False}), c1=dataclasses.field(default='ce')))
            BaseB = optree.dataclasses.dataclass(BaseB, namespace=ns, kw_only=True)
            bases = (Base, BaseB)
            base_fields = [dict(name='c0', default='value', init=True, pytree_node=False, kw_only=True, how='plain'), dict(name='c1', default='value', init=True, pytree_node=None, kw_only=True, how='bare')] + base_fields
        if inherit == 'optree-redeclare':
            # the subclass declares an inherited field again with the other role (it keeps its position in fields(), the new definition counts)
            if rng.random() < 0.5:
                fields = fields + [dict(name='b1', default='value', init=True, pytree_node=True, kw_only=True, how=rng.choice(['optree', 'plain']))]
            else:
                fields = fields + [dict(name='b0', default='value', init=True, pytree_node=False, kw_only=True, how=rng.choice(['optree', 'plain']))]
    ann, attrs, field_err = build_namespace(fields, True, extras)
    if extras['shared_metadata'] is not None:
        sink.check(extras['shared_metadata'] == {'unit': 'm', 7: None}, 'field/user-metadata-mutated', 'optree.dataclasses.field does not write into the metadata dict of the caller (every field keeps its own pytree_node flag)', ident,
                   repr(extras['shared_metadata']))
        sink.count('layouts-with-shared-metadata')
    expect_reject = any(effective_node(f) and not f['init'] for f in fields)
    if field_err is not None:
        sink.check(expect_reject, 'field/spurious-rejection', 'optree.dataclasses.field rejects only pytree_node=True with init=False', ident, repr(field_err))
        sink.count('rejected:field')
        sink.case(harness.fp('dc', repr(fields), repr(flags), route), len(fields) >= 2, None)
        return
    body = dict(__annotations__=ann, __post_init__=post_init, **attrs)
    dflags = dict(flags)
    try:
        if route.startswith('make_dataclass'):
            spec_fields = []
            for name, typ in ann.items():
                if name in attrs:
                    spec_fields.append((name, typ, attrs[name]))
                else:
                    spec_fields.append((name, typ))
            if route == 'make_dataclass':
                cls = optree.dataclasses.make_dataclass(f'DC{idx}', spec_fields, bases=bases, ns={'__post_init__': post_init}, namespace=ns, **dflags)
            else:
                cls = optree.dataclasses.make_dataclass(f'DC{idx}', spec_fields, bases=bases, ns=ns, namespace={'__post_init__': post_init}, **dflags)
        else:
            raw = type(f'DC{idx}', bases, body)
            if route == 'decorator':
                cls = optree.dataclasses.dataclass(raw, namespace=ns, **dflags)
            else:
                cls = optree.dataclasses.dataclass(namespace=ns, **dflags)(raw)
        made, exc = True, None
    except Exception as e:  # noqa: BLE001
        made, exc, cls = False, e, None
    if expect_reject:
        sink.check(not made and isinstance(exc, Exception) and not isinstance(exc, INTERNAL), 'reject/non-init-pytree-node', 'declaring a non-init field as a pytree node is rejected', ident, lambda: repr(exc))
        sink.count('rejected:decorator')
        sink.case(harness.fp('dc', repr(fields), repr(flags), route), len(fields) >= 2, None)
        return
    # the plain twin decides whether the layout itself is legal python
    tann, tattrs, _ = build_namespace(fields, False, extras)
    try:
        twin = dataclasses.dataclass(type(f'DC{idx}', tuple(b for b in bases), dict(__annotations__=tann, __post_init__=post_init, **tattrs)), **dflags)
        twin_ok, twin_exc = True, None
    except Exception as e:  # noqa: BLE001
        twin_ok, twin_exc, twin = False, e, None
    sink.check(made == twin_ok, 'twin/creation', 'the class is created exactly when dataclasses.dataclass would create it', ident, lambda: (repr(exc), repr(twin_exc)))
    if not (made and twin_ok):
        sink.count('illegal-layouts')
        return
    try:
        defs = {}
        for f_ in base_fields + fields + ([dict(name='kz', default='value', init=True, pytree_node=None, kw_only=True, how='bare')] if extras['kw_sentinel'] else []):
            defs[f_['name']] = f_  # the last definition of a name counts
        # declaration order as the standard library sees it (on the plain twin): reverse MRO for bases, a redeclared field keeps its place
        all_fields = [defs[f_.name] for f_ in dataclasses.fields(twin) if f_.name in defs]
        # ---- instances
        def value_for(f, r):
            if effective_node(f):
                d, _ = gen.gen_desc(r, r.choice(['plain', 'seq']), 5)
                return gen.materialize(d, r)[0]
            return r.choice([1, 'm', (2, 3), None])

        kwargs = {f['name']: value_for(f, rng) for f in all_fields if f['init']}
        inst = cls(**kwargs)
        sink.check(POST[key] == 1, 'post_init/construction', '__post_init__ runs once on construction', ident, POST[key])
        if extras['initvar']:
            sink.check(IV[key] == [('ivd',)], 'post_init/initvar', 'an InitVar pseudo-field is passed to __post_init__ and is not a field', ident, IV[key])
        exp_children_names = [f['name'] for f in all_fields if effective_node(f)]
        exp_meta_names = [f['name'] for f in all_fields if not effective_node(f) and f['init']]
        for obs_ns in ('', 'dcns', 'dcns2', 'zz'):
            leaves, spec = optree.tree_flatten(inst, namespace=obs_ns)
            registered_here = nskey == '' or obs_ns == nskey
            if not registered_here:
                sink.check(spec.is_leaf() and leaves == [inst], 'namespace/leaks', 'the dataclass is a node in its namespace only (a leaf elsewhere)', dict(ident, observed_ns=obs_ns), repr(spec))
                continue
            sink.check(spec.kind == optree.PyTreeKind.CUSTOM and spec.type is cls, 'node/kind', 'the dataclass is a custom node in its namespace', dict(ident, observed_ns=obs_ns), repr(spec))
            sink.check(spec.entries() == exp_children_names, 'node/entries', 'children are addressed by field name, in declaration order', dict(ident, observed_ns=obs_ns), lambda: (spec.entries(), exp_children_names))
            kids = [getattr(inst, n) for n in exp_children_names]
            got_kids = spec.flatten_up_to(inst) if False else optree.tree_flatten(inst, is_leaf=lambda x: x is not inst, namespace=obs_ns)[0]
            sink.check(len(got_kids) == len(kids) and all(a is b for a, b in zip(got_kids, kids)), 'node/children', 'children are the values of the pytree_node fields in declaration order', dict(ident, observed_ns=obs_ns),
                       lambda: (got_kids, kids))
            one = optree.tree_flatten_one_level(inst, namespace=obs_ns)
            exp_meta = tuple((n, getattr(inst, n)) for n in exp_meta_names)
            sink.check(tuple(one.metadata) == exp_meta, 'node/metadata', 'the other init fields are kept as metadata', dict(ident, observed_ns=obs_ns), lambda: (one.metadata, exp_meta))
            accs = optree.tree_accessors(inst, namespace=obs_ns)
            ok = all(a(inst) is leaf for a, leaf in zip(accs, leaves)) and all(type(a[0]) is optree.DataclassEntry and a[0].name in exp_children_names for a in accs if len(a))
            sink.check(ok, 'node/accessors', 'accessors use .name entries and hit the leaves', dict(ident, observed_ns=obs_ns))
            if accs:
                code = accs[0].codify('t')
                sink.check(code.startswith('t.' + accs[0][0].name), 'node/codify', 'the generated code addresses the field by attribute', dict(ident, observed_ns=obs_ns), code)
            # unflatten: equal to the original, __post_init__ re-run exactly once
            before = POST[key]
            rebuilt = spec.unflatten(leaves)
            sink.check(POST[key] == before + 1, 'post_init/unflatten', 'unflatten re-runs __post_init__ exactly once', dict(ident, observed_ns=obs_ns), POST[key] - before)
            if extras['classvar']:
                sink.check('cv' not in spec.entries() and all(n != 'cv' for n, _ in one.metadata) and rebuilt.cv == 5, 'node/classvar', 'a ClassVar is neither a child nor metadata', dict(ident, observed_ns=obs_ns))
            if extras['initvar']:
                sink.check('iv' not in spec.entries() and all(n != 'iv' for n, _ in one.metadata) and IV[key][-1] == ('ivd',), 'node/initvar', 'an InitVar is neither a child nor metadata; unflatten passes its default', dict(ident, observed_ns=obs_ns), IV[key][-1:])
            same_fields = type(rebuilt) is cls and all(same.diff(getattr(inst, f.name), getattr(rebuilt, f.name)) is None for f in dataclasses.fields(cls))
            sink.check(same_fields, 'unflatten/fields', 'unflatten reconstructs every field', dict(ident, observed_ns=obs_ns), lambda: (repr(inst), repr(rebuilt)))
            if flags['eq']:
                try:
                    eq = rebuilt == inst
                except Exception as e:  # noqa: BLE001
                    eq = repr(e)
                sink.check(eq is True, 'unflatten/equal', 'unflatten reconstructs an instance equal to the original', dict(ident, observed_ns=obs_ns), lambda: (eq, repr(inst), repr(rebuilt)))
            mapped = optree.tree_map(lambda x: x, inst, namespace=obs_ns)
            sink.check(type(mapped) is cls and mapped is not inst, 'map/identity', 'tree_map rebuilds the dataclass', dict(ident, observed_ns=obs_ns))
            sink.count('dataclass-observations')
        # ---- decorating twice / bad namespaces
        for what, fn, exc_t in (
            ('twice', lambda: optree.dataclasses.dataclass(cls, namespace=ns), TypeError),
            ('empty-namespace', lambda: optree.dataclasses.dataclass(type('E', (), {'__annotations__': {'x': int}}), namespace=''), ValueError),
            ('non-str-namespace', lambda: optree.dataclasses.dataclass(type('E', (), {'__annotations__': {'x': int}}), namespace=3), TypeError),
            ('non-class', lambda: optree.dataclasses.dataclass(42, namespace='dcns'), TypeError),
        ):
            try:
                fn()
                out = 'accepted'
            except Exception as e:  # noqa: BLE001
                out = type(e)
            # the property says 'is rejected' without naming a type: any exception but an internal error (the type seen is recorded)
            sink.check(out != 'accepted' and not issubclass(out, INTERNAL), f'reject/{what}', f'{what} is rejected', ident, repr(out))
            sink.cell('rejection-type', what, getattr(out, '__name__', out))
        # ---- otherwise the class dataclasses.dataclass would produce
        a, b = dataclasses.fields(cls), dataclasses.fields(twin)
        sig = lambda fs: [(f.name, f.type, f.default is dataclasses.MISSING, f.default_factory is dataclasses.MISSING, f.init, f.repr, f.hash, f.compare, f.kw_only) for f in fs]  # noqa: E731
        sink.check(sig(a) == sig(b), 'twin/fields', 'fields() match the dataclasses.dataclass twin', ident, lambda: (sig(a), sig(b)))
        sink.check(str(inspect.signature(cls.__init__)) == str(inspect.signature(twin.__init__)), 'twin/init-signature', '__init__ signature matches the twin', ident,
                   lambda: (str(inspect.signature(cls.__init__)), str(inspect.signature(twin.__init__))))
        pa, pb = cls.__dataclass_params__, twin.__dataclass_params__
        keys = ('init', 'repr', 'eq', 'order', 'unsafe_hash', 'frozen', 'match_args', 'kw_only', 'slots', 'weakref_slot')
        sink.check(getattr(cls, '__match_args__', None) == getattr(twin, '__match_args__', None) and (cls.__hash__ is None) == (twin.__hash__ is None)
                   and ('__weakref__' in getattr(cls, '__slots__', ())) == ('__weakref__' in getattr(twin, '__slots__', ())) and cls.__name__ == twin.__name__ and cls.__qualname__ == twin.__qualname__,
                   'twin/class-attributes', '__match_args__, hashability, weakref slot, names match the twin', ident,
                   lambda: (getattr(cls, '__match_args__', None), getattr(twin, '__match_args__', None), cls.__hash__, twin.__hash__))
        if route.startswith('make_dataclass'):
            sink.check(cls.__module__ == __name__, 'twin/module', 'make_dataclass sets __module__ to the calling module, as dataclasses.make_dataclass does', ident, cls.__module__)
        sink.check(all(getattr(pa, k) == getattr(pb, k) for k in keys), 'twin/params', '__dataclass_params__ match the twin', ident, lambda: (repr(pa), repr(pb)))
        tinst = twin(**kwargs)
        sink.check(repr(inst) == repr(tinst), 'twin/repr', 'repr matches the twin', ident, lambda: (repr(inst), repr(tinst)))
        for name, f in (('hash', lambda x: hash(x)), ('eq-self', lambda x: x == x), ('lt-self', lambda x: x < x), ('setattr', lambda x: setattr(x, all_fields[0]['name'] if all_fields else 'zz', 1))):
            def outcome(x, f=f):
                try:
                    r = f(x)
                    return 'ok' if name == 'hash' else ('ok', r)
                except Exception as e:  # noqa: BLE001
                    return type(e).__name__
            if name == 'setattr':
                continue
            sink.check(outcome(inst) == outcome(tinst), f'twin/behaviour/{name}', f'{name} behaves like the twin', ident, lambda: (outcome(inst), outcome(tinst)))
        sink.check(hasattr(cls, '__slots__') == hasattr(twin, '__slots__') or not flags['slots'], 'twin/slots', 'slots like the twin', ident)
        sink.cell('route', route, inherit or 'flat')
        sink.count(f'inheritance:{inherit or "none"}')
        sink.cell('flags', *(k for k, v in flags.items() if v))
        sink.count('dataclasses')
        sink.case(harness.fp('dc', repr(fields), repr(flags), route, inherit), len(all_fields) >= 2, ident if idx % 400 == 0 else None)
    finally:
        for c_ in ([cls] if made else []) + (list(bases) if inherit and inherit != 'plain' else []):
            try:
                optree.unregister_pytree_node(c_, namespace=ns)
            except Exception:  # noqa: BLE001
                pass


# ------------------------------------------------------------------------------------ partial
CALLS = []


def recorder(*args, **kwargs):
    CALLS.append((args, kwargs))
    return (args, kwargs)


def other_recorder(*args, **kwargs):
    return None


def partial_case(sink, seed, idx):  # noqa: C901
    rng = gen.case_rng(seed, 'c19p', idx)

    def tree():
        d, _ = gen.gen_desc(rng, rng.choice(['plain', 'seq', 'none', 'mixed']), 5)
        return gen.materialize(d, rng)[0]

    depth = rng.randrange(1, 4)
    layers = []
    fn = recorder
    p = None
    plain_inner = depth >= 2 and rng.random() < 0.3
    for lv in range(depth):
        args = [tree() for _ in range(rng.randrange(0, 3))]
        kws = {k: tree() for k in rng.sample(['ka', 'kb', 'kc', 'kd'], rng.randrange(0, 3))}
        inner = fn
        if plain_inner and lv == 0:
            p = functools.partial(fn, *args, **kws)  # a standard-library partial as the innermost layer
        else:
            p = optree.functools.partial(fn, *args, **kws)
        layers.append((args, kws))
        fn = p
    ident = dict(gen='c19p', seed=seed, index=idx, depth=depth, layers=[(len(a), sorted(k)) for a, k in layers])
    args, kws = layers[-1]
    for ns in ('', U.NS, 'zz'):
        for nil in (False, True):
            kw = dict(none_is_leaf=nil, namespace=ns)
            leaves, spec = optree.tree_flatten(p, **kw)
            want = optree.tree_leaves((tuple(args), dict(kws)), **kw)
            sink.check([id(x) for x in leaves] == [id(x) for x in want], 'partial/leaves', 'partial flattens in every namespace to the leaves of (args, keywords)', dict(ident, ns=ns, nil=nil), lambda: (leaves, want))
            sink.check(spec.kind == optree.PyTreeKind.CUSTOM and spec.type is optree.functools.partial and spec.entries() == ['args', 'keywords'], 'partial/node', 'partial is a custom node with entries (args, keywords)', dict(ident, ns=ns), repr(spec))
            one = optree.tree_flatten_one_level(p, **kw)
            inner_fn = layers and (recorder if depth == 1 else None)
            if depth == 1:
                sink.check(one.metadata is recorder, 'partial/metadata', 'the wrapped callable is the metadata', dict(ident, ns=ns), repr(one.metadata))
            else:
                try:
                    ok_md = one.metadata == inner and hash(one.metadata) == hash(inner) and getattr(one.metadata, 'func', None) is inner.func and p.func == inner
                except Exception as e:  # noqa: BLE001
                    ok_md = repr(e)
                sink.check(ok_md is True, 'partial/metadata-nested', 'the wrapped partial itself is the metadata (equal to it, hashing like it): not merged', dict(ident, ns=ns), lambda: (ok_md, repr(one.metadata)))
            sink.check(len(one.children) == 2 and same.diff(one.children[0], tuple(args)) is None and same.diff(one.children[1], dict(kws)) is None, 'partial/not-merged',
                       'a nested partial is never merged: only the outer args/keywords are children', dict(ident, ns=ns), lambda: repr(one.children)[:300])
            accs = optree.tree_accessors(p, **kw)
            sink.check(all(a(p) is leaf for a, leaf in zip(accs, leaves)), 'partial/accessors', 'accessors reach the leaves through .args / .keywords', dict(ident, ns=ns))
    # after tree_map the rebuilt partial calls the same function with the mapped arguments
    G = {}

    def g(x):
        return G.setdefault(id(x), U.Leaf(('g', len(G))))

    mapped = optree.tree_map(g, p)
    extra = U.Leaf('extra')
    del CALLS[:]
    mapped(extra, kz=1)
    got = list(CALLS)
    # expected call: inner layers unmapped, outermost layer mapped
    exp_args, exp_kwargs = [], {}
    for lv, (a, k) in enumerate(layers):
        if lv == depth - 1:
            a = optree.tree_map(g, tuple(a))
            k = optree.tree_map(g, dict(k))
        exp_args += list(a)
        exp_kwargs.update(k)
    exp_args.append(extra)
    exp_kwargs['kz'] = 1
    ok = len(got) == 1 and same.diff(tuple(got[0][0]), tuple(exp_args)) is None and same.diff(dict(sorted(got[0][1].items())), dict(sorted(exp_kwargs.items()))) is None
    sink.check(ok, 'partial/call-after-map', 'after tree_map the rebuilt partial calls the same function with the mapped arguments', ident, lambda: (repr(got)[:400], repr((exp_args, exp_kwargs))[:400]))
    sink.check(type(mapped) is optree.functools.partial, 'partial/type-after-map', 'tree_map rebuilds an optree partial', ident)
    # treespecs of partials: same callable and same argument structure <=> equal (and equal hash); another callable => unequal
    twin_p = optree.functools.partial(inner, *optree.tree_map(g, tuple(args)), **optree.tree_map(g, dict(kws)))
    other_p = optree.functools.partial(other_recorder, *args, **kws)
    sp, st, so = optree.tree_structure(p), optree.tree_structure(twin_p), optree.tree_structure(other_p)
    sink.check(sp == st and hash(sp) == hash(st) and repr(sp) == repr(st), 'partial/spec-eq', 'partials over the same callable with equally shaped arguments have equal treespecs', ident, lambda: (repr(sp), repr(st)))
    sink.check(sp != so and not (sp == so), 'partial/spec-ne', 'partials over different callables have unequal treespecs', ident, lambda: (repr(sp), repr(so)))
    sink.check(optree.tree_structure(mapped) == sp and mapped.func == p.func, 'partial/spec-after-map', 'tree_map keeps the callable and the structure', ident)
    exp_repr_head = 'optree.functools.partial(' + repr(p.func)
    sink.check(repr(p).startswith(exp_repr_head) and repr(p).endswith(')'), 'partial/repr', 'repr names the wrapped callable first', ident, lambda: repr(p)[:200])
    # several nested partials alive at the same time whose inner partials have the same function, equal args and the same keyword NAMES
    vals = [U.Leaf(('scale', j)) for j in range(3)]
    inners = [functools.partial(recorder, 'pos', scale=v, bias=0) for v in vals]
    if rng.random() < 0.5:
        inners = [optree.functools.partial(recorder, 'pos', scale=v, bias=0) for v in vals]
    outers = [optree.functools.partial(inn, extra) for inn in inners]
    for j, (out_p, inn) in enumerate(zip(outers, inners)):
        del CALLS[:]
        out_p()
        ok_call = len(CALLS) == 1 and CALLS[0][1].get('scale') is vals[j] and CALLS[0][0] == ('pos', extra)
        md = optree.tree_flatten_one_level(out_p).metadata
        sink.check(ok_call and md == inn and out_p.func == inn, 'partial/siblings-with-equal-looking-inner-partials', 'each nested partial wraps ITS inner partial (metadata, .func, the call)', dict(ident, j=j),
                   lambda: (repr(CALLS)[:200], repr(md)[:120]))
    sp_out = [optree.tree_structure(p_) for p_ in outers]
    sink.check(sp_out[0] != sp_out[1] and sp_out[1] != sp_out[2], 'partial/siblings-spec-ne', 'partials over different inner partials have unequal treespecs', ident)
    sink.count('partials')
    if depth > 1:
        sink.count('nested-partials')
    if plain_inner:
        sink.count('plain-inner-partials')
    sink.case(harness.fp('partial', depth, [(len(a), sorted(k)) for a, k in layers]), depth >= 2 or len(args) + len(kws) >= 2, ident if idx % 500 == 0 else None)


def run_shard(sink, tier, seed, shard):
    i0, step = (shard or {}).get('i', 0), (shard or {}).get('n', 1)
    n_dc = harness.scale(3000, 200000, tier)
    n_p = harness.scale(2500, 100000, tier)
    max_fields = 3 if tier == 'quick' else 5
    for idx in range(i0, n_dc, step):
        sink.guard('harness', 'dataclass', dict(index=idx), lambda: dataclass_case(sink, seed, idx, max_fields))
    for idx in range(i0, n_p, step):
        sink.guard('harness', 'partial', dict(index=idx), lambda: partial_case(sink, seed, idx))


def finalize(sink, tier, seed):
    sink.require('dataclasses', 500)
    sink.require('layouts-with-shared-metadata', 100)
    for k in ('optree', 'plain', 'optree-redeclare', 'two-optree'):
        sink.require(f'inheritance:{k}', 30)
    sink.require('dataclass-observations', 500)
    sink.require('rejected:decorator')
    sink.require('rejected:field')
    sink.require('partials', 500)
    sink.require('nested-partials', 100)
    sink.require('plain-inner-partials', 20)
