"""C17 - concurrent use from several threads is equivalent to some sequential use.

(a) systematic schedules: a cooperative scheduler parks each thread inside the Python-level
    callbacks the engine reaches and enumerates the interleavings (DFS by replay + random);
(b) bounded progress instead of "never deadlocks": journal stall watchdog in the parent, gdb stack
    signature for the verdict;
(c) preemptive stress with a microsecond switch interval (plain; thorough also asan / tsan).
"""
from __future__ import annotations

import collections
import faulthandler
import itertools
import os
import pickle
import random
import re
import sys
import threading
import time
import warnings
from collections import namedtuple

import optree
from optree.registry import __GLOBAL_NAMESPACE as GLOBAL

from vf import build, gen, harness, runner, sanlog, sched
from vf import universe as U
from vf.props import c15
from vf.props.c15 import canon

LEVEL = 'exploration'
RULE = (
    'all pairs (and sampled triples) of operations from {flatten, flatten_with_path, iter, map, unflatten, ==, hash, repr, pickle, accessors, '
    'compose/broadcast, register namedtuple class (warning hook), register class with a metaclass attribute hook, unregister, same-(type, ns) '
    'registration race, flatten overlapping the registration of a type it contains, two consumers of one shared tree_iter}; every '
    'harness callback reached by the engine is a yield point where the thread parks; interleavings enumerated by DFS with replay (bounded '
    'yields per thread) plus random schedules; each executed schedule identified by its (thread, site) trace; results compared with solo '
    'results / the registry model; plus preemptive stress (switch interval 1e-6 s, 8-16 threads). distinct = distinct schedule traces; '
    'non-trivial = a schedule with >= 2 context switches'
)
ASSUMPTIONS = [
    'GIL build (CPython 3.12): a thread switch can only happen inside a Python-level callback or between C calls, which is exactly what the scheduler controls; nothing is claimed for free-threaded builds',
    '"never deadlocks" is restated as bounded progress: the journal of executed schedules must keep growing; a stall is a violation only with a stack signature (a thread blocked in an optree lock while the lock holder is parked / waits for the GIL), otherwise inconclusive',
    'dict_insertion_ordered is excluded as documented (not thread-safe)',
    'a clean TSan run on a GIL build is weak evidence (most engine accesses are ordered by the GIL) and is reported as such',
]

NSC = 'cc'
MAX_YIELDS = 6


class Meta(type):
    """metaclass whose attribute hook is consulted by namedtuple / struct-sequence detection."""

    def __getattr__(cls, name):
        U.tick('metaclass.__getattr__', name)
        raise AttributeError(name)


class MetaHash(type):
    """metaclass whose __hash__ is a Python-level callback: every lookup of the class in a Python dict (the Python registry table) is a yield point."""

    def __hash__(cls):
        U.tick('metaclass.__hash__', None)
        return type.__hash__(cls)

    def __eq__(cls, other):
        return cls is other


def fresh_types():
    TC = Meta('TC', (tuple,), {})  # tuple subclass: _fields / n_fields lookups hit Meta.__getattr__
    NT = type('NTc', (namedtuple('NTcBase', ['a', 'b']),), {'__slots__': ()})
    P = type('Pc', (), {})
    Q = type('Qc', (), {})
    R = type('Rc', (), {})
    H = MetaHash('Hc', (), {})
    return dict(TC=TC, NT=NT, P=P, Q=Q, R=R, H=H)


def _fl(o):
    U.tick('flatten:conc', o)
    return (tuple(o) if isinstance(o, tuple) else (getattr(o, 'v', 0),)), 'conc-meta', None


def _fl2(o):
    return (), 'conc-meta-2', None


def _un(m, c):
    return tuple(c)


def showwarning_hook(*a, **k):
    U.tick('warnings.showwarning', None)


def ident_f(*a):
    U.tick('f', None)
    return a[-1]


def build_ops(names, scen, seed):  # noqa: C901
    """Fresh context + the operation callables for one schedule."""
    c = c15.build_ctx(scen)
    T = fresh_types()
    c['T'] = T
    c['shared_iter'] = None
    c['reg_results'] = []
    kw = dict(is_leaf=c15.pred, none_is_leaf=False, namespace=c['ns'])
    # a class registered up-front (for 'unreg') and a tree containing instances of Q (for the overlap op)
    optree.register_pytree_node(T['P'], _fl, _un, namespace=NSC)
    optree.register_pytree_node(T['R'], _fl, _un, namespace=NSC)
    optree.register_pytree_node(T['H'], _fl, _un, namespace=NSC)
    r1, r2, r3 = T['R'](), T['R'](), T['R']()
    c['rtree'] = ({'a': r1, 'b': [U.Leaf('y')]}, [r2, (r3,)])
    # trees that are deep but legal on their own (600 and 450 levels), with a single yield point at the very bottom (the custom flatten of P)
    for name_, depth_ in (('deep', 600), ('deep2', 450)):
        t_ = [T['P'](), U.Leaf(name_)]
        for _ in range(depth_):
            t_ = [t_]
        c[name_] = t_
    c['robjs'] = (r1, r2, r3)
    q1, q2, q3 = T['Q'](), T['Q'](), T['Q']()
    c['qtree'] = [q1, {'a': q2, 'b': [U.Leaf('z')]}, (q3,)]
    c['qobjs'] = (q1, q2, q3)

    def consume(tag):
        def run():
            it = c['shared_iter']
            got = []
            for _ in range(1000):
                try:
                    got.append(next(it))
                except StopIteration:
                    break
            return ('consumed', tuple(id(x) for x in got))
        return run

    table = {
        'flatten': lambda: canon(optree.tree_flatten(c['tree'], **kw)),
        'flatten_with_path': lambda: canon(optree.tree_flatten_with_path(c['rest'], **kw)),
        'iter': lambda: canon(list(optree.tree_iter(c['tree'], **kw))),
        'map': lambda: canon(optree.tree_map(ident_f, c['tree'], c['rest'], none_is_leaf=False, namespace=c['ns'])),
        'map-leaves': lambda: canon(optree.tree_map(ident_f, list(c['leaves']), list(c['leaves']))),
        'unflatten': lambda: canon(c['spec'].unflatten(c['leaves'])),
        'eq': lambda: (c['spec'] == c['spec2'], c['spec'] != c['rspec'], c['spec'].is_prefix(c['rspec'])),
        'hash': lambda: hash(c['spec']),
        'repr': lambda: repr(c['spec']),
        'pickle': lambda: canon(pickle.loads(pickle.dumps(c['spec']))),
        'accessors': lambda: canon(c['spec'].accessors()),
        'compose': lambda: canon((c['spec'].compose(c['rspec']), c['spec'].broadcast_to_common_suffix(c['spec2']))),
        'flatten_up_to': lambda: canon(c['spec'].flatten_up_to(c['tree'])),
        'traverse': lambda: canon(c['spec'].traverse(list(c['leaves']), c15.ticking('f_node'), c15.ticking('f_leaf'))),
        'transform': lambda: canon(c['spec'].transform(c15.ticking('f_node'), c15.ticking('f_leaf'))),
        'from_collection': lambda: canon(optree.treespec_from_collection(c['speccoll'], namespace=c['ns'])),
        'paths-children': lambda: canon((c['spec'].paths(), c['spec'].children(), c['spec'].entries(), c['rspec'].one_level())),
        'reg-nt': lambda: reg(T['NT'], NSC),
        'reg-meta': lambda: reg(T['TC'], NSC),
        'unreg': lambda: unreg(T['P'], NSC),
        'reg-same-a': lambda: reg(T['Q'], NSC, 'same'),
        'reg-same-b': lambda: reg(T['Q'], NSC, 'same', _fl2),
        # the same race on classes whose registration runs Python code between the duplicate check and the commit
        # (namedtuple class: warning hook; metaclass attribute hook)
        'reg-same-nt-a': lambda: reg(T['NT'], NSC, 'same-nt'),
        'reg-same-nt-b': lambda: reg(T['NT'], NSC, 'same-nt', _fl2),
        'reg-same-meta-a': lambda: reg(T['TC'], NSC, 'same-meta'),
        'reg-same-meta-b': lambda: reg(T['TC'], NSC, 'same-meta', _fl2),
        'reg-q': lambda: reg(T['Q'], NSC),
        'flatten-q': lambda: flatten_q(),
        'deep-flatten': lambda: canon(optree.tree_flatten(c['deep'], namespace=NSC)),
        'deep-leaves': lambda: canon(optree.tree_leaves(c['deep2'], namespace=NSC)),
        'deep-structure': lambda: canon(optree.tree_structure(c['deep'], namespace=NSC)),
        'deep-map': lambda: canon(optree.tree_map(lambda x, y: x, c['deep2'], c['deep2'], namespace=NSC)),
        'unreg-r': lambda: unreg(T['R'], NSC),
        # unregistration racing with a re-registration of the same (type, namespace); the class's metaclass makes the Python table lookups yield
        'unreg-h': lambda: unreg(T['H'], NSC),
        'rereg-h': lambda: reg(T['H'], NSC, 'h', _fl2),
        'unreg-h2': lambda: unreg(T['H'], NSC),
        'flatten-r': lambda: flatten_q('rtree', 'robjs', 'flatten-r'),
        'consume-a': consume('a'),
        'consume-b': consume('b'),
        'classify': lambda: (optree.is_namedtuple_class(T['TC']), optree.is_structseq_class(T['TC']), optree.is_namedtuple_class(T['NT'])),
    }

    def reg(cls, ns, tag=None, fl=_fl):
        try:
            with warnings.catch_warnings():
                warnings.simplefilter('always')
                optree.register_pytree_node(cls, fl, _un, namespace=ns)
            out = 'registered'
        except ValueError:
            out = 'ValueError'
        c['reg_results'].append((tag, out))
        return out

    def unreg(cls, ns):
        try:
            optree.unregister_pytree_node(cls, namespace=ns)
            return 'unregistered'
        except ValueError:
            return 'ValueError'

    def flatten_q(tree='qtree', objs='qobjs', tag='flatten-q'):
        leaves, spec = optree.tree_flatten(c[tree], is_leaf=c15.pred, namespace=NSC)
        # per node of the (un)registered type: a leaf (not registered at that moment) or a custom node flattened with the registration's function
        kinds = tuple('old' if any(x is q for x in leaves) else 'new' for q in c[objs])
        return (tag, kinds, len(leaves), spec.num_leaves)

    if 'consume-a' in names or 'consume-b' in names:
        c['shared_iter'] = optree.tree_iter(c['tree'], **kw)
    return [table[n] for n in names], c


def cleanup(c):
    T = c['T']
    for cls in T.values():
        for ns in (NSC,):
            try:
                optree.unregister_pytree_node(cls, namespace=ns)
            except Exception:  # noqa: BLE001
                pass


DEEP = ('deep-flatten', 'deep-leaves', 'deep-structure', 'deep-map')
PURE = ('flatten', 'flatten_with_path', 'iter', 'map', 'map-leaves', 'traverse', 'transform', 'from_collection', 'paths-children', 'unflatten', 'eq', 'hash', 'repr', 'pickle', 'accessors', 'compose', 'flatten_up_to', 'classify')
REGS = ('reg-nt', 'reg-meta', 'unreg')
COMPARED = PURE + DEEP  # operations whose result is compared with their solo result


def all_pairs():
    pairs = []
    for a, b in itertools.combinations(PURE, 2):
        pairs.append((a, b))
    for a in ('hash', 'repr', 'flatten', 'unflatten', 'accessors', 'eq'):
        pairs.append((a, a))
    # deep-but-legal trees in two threads at once: whatever the engine counts per recursion must be per call, not per process
    for a, b in itertools.combinations_with_replacement(DEEP, 2):
        pairs.append((a, b))
    pairs += [('deep-flatten', 'flatten'), ('deep-leaves', 'map'), ('deep-structure', 'reg-nt')]
    for r in REGS:
        for a in ('flatten', 'flatten_with_path', 'iter', 'unflatten', 'map', 'pickle', 'eq', 'flatten_up_to', 'classify'):
            pairs.append((r, a))
    pairs += [('reg-nt', 'reg-meta'), ('reg-nt', 'unreg'), ('reg-meta', 'unreg'), ('reg-same-a', 'reg-same-b'), ('reg-same-nt-a', 'reg-same-nt-b'), ('reg-same-meta-a', 'reg-same-meta-b'),
              ('reg-q', 'flatten-q'), ('unreg-r', 'flatten-r'), ('unreg-h', 'rereg-h'), ('unreg-h', 'unreg-h2'), ('consume-a', 'consume-b')]
    return pairs


def triples(rng, n):
    out = []
    pool_ = list(PURE) + list(REGS)
    for _ in range(n):
        t = tuple(rng.sample(pool_, 3))
        out.append(t)
    out += [('reg-same-a', 'reg-same-b', 'flatten'), ('reg-same-nt-a', 'reg-same-nt-b', 'flatten'), ('reg-same-meta-a', 'reg-same-meta-b', 'classify'), ('consume-a', 'consume-b', 'hash'), ('reg-q', 'flatten-q', 'reg-nt'), ('unreg-r', 'flatten-r', 'flatten'), ('unreg-r', 'flatten-r', 'reg-q'), ('unreg-h', 'rereg-h', 'unreg-h2'), ('unreg-h', 'rereg-h', 'flatten')]
    return out


def expected_solo(names, scen, seed):
    """Solo results of the pure operations in the same kind of context (canon is context independent
    up to object identities, so solo results are computed inside each schedule's own context)."""


def check_schedule(sink, s, c, names, solo, ident):  # noqa: C901
    switches = sum(1 for a, b in zip(s.trace, s.trace[1:]) if a[0] != b[0])
    trace_key = tuple(s.trace)
    jid = dict(ident, schedule=s.taken[:40], switches=switches)
    for i, n in enumerate(names):
        r = s.results[i]
        if n in COMPARED:
            ok = r is not None and r[0] == 'ok' and r[1] == solo[i]
            sink.check(ok, f'result-differs/{n}/with/{"+".join(x for j, x in enumerate(names) if j != i)}', 'every operation returns exactly what it returns when run alone', dict(jid, op=n),
                       lambda: dict(got=repr(r)[:400], solo=repr(solo[i])[:400], trace=s.trace[:60]))
        elif n in ('reg-nt', 'reg-meta', 'reg-q'):
            sink.check(r == ('ok', 'registered'), f'registration-failed/{n}', 'a registration of an unrelated type succeeds', dict(jid, op=n), repr(r))
        elif n == 'unreg':
            sink.check(r == ('ok', 'unregistered'), f'unregistration-failed/{n}', 'unregistering a registered type succeeds', dict(jid, op=n), repr(r))
    for fam, cls_key, make_inst in (('reg-same', 'Q', lambda t: t()), ('reg-same-nt', 'NT', lambda t: t(1, 2)), ('reg-same-meta', 'TC', lambda t: t((1, 2)))):
        if fam + '-a' not in names:
            continue
        cls = c['T'][cls_key]
        res = {x: (s.results[names.index(x)][1] if s.results[names.index(x)][0] == 'ok' else 'exc') for x in (fam + '-a', fam + '-b')}
        outs = sorted(res.values())
        sink.check(outs == ['ValueError', 'registered'], f'same-registration-race/{cls_key}', 'concurrent registrations of the same (type, namespace) succeed exactly once', jid, res)
        e = optree.register_pytree_node.get(cls, namespace=NSC)
        st = optree.tree_structure(make_inst(cls), namespace=NSC)
        sink.check(e is not None and e.namespace == NSC and st.kind == optree.PyTreeKind.CUSTOM, f'same-registration-race/final-registry/{cls_key}',
                   'after the race the registry (engine and python view) contains the type exactly once', jid)
        if outs == ['ValueError', 'registered'] and e is not None:
            winner = _fl if res[fam + '-a'] == 'registered' else _fl2
            engine_fl = _fl2 if 'conc-meta-2' in repr(st) else _fl
            sink.check(e.flatten_func is winner and engine_fl is winner, f'same-registration-race/winner/{cls_key}',
                       'the engine and the python view both hold the registration of the call that succeeded', jid, lambda: (res, repr(st), e.flatten_func.__name__))
        # the type can be unregistered exactly once afterwards
        u = []
        for _ in range(2):
            try:
                optree.unregister_pytree_node(cls, namespace=NSC)
                u.append('unregistered')
            except Exception as ex:  # noqa: BLE001
                u.append(type(ex).__name__)
        sink.check(u[0] == 'unregistered' and u[1] != 'unregistered' and optree.tree_structure(make_inst(cls), namespace=NSC).kind != optree.PyTreeKind.CUSTOM,
                   f'same-registration-race/unregister-once/{cls_key}', 'after the race the type is registered exactly once (one unregister removes it)', jid, u)
        sink.count(f'same-registration-races:{cls_key}')
    for fname, what in (('flatten-q', 'registration'), ('flatten-r', 'unregistration')):
        if fname not in names:
            continue
        r = s.results[names.index(fname)]
        ok = r[0] == 'ok' and r[1][0] == fname and all(k in ('old', 'new') for k in r[1][1]) and r[1][2] == r[1][3]
        sink.check(ok, f'flatten-overlapping-{what}', 'a flatten overlapping a registry change sees, per node, the old or the new registration - never a torn one', jid, repr(r))
        if ok:
            sink.count(f'overlap-kinds:{what}:' + ''.join(k[0] for k in r[1][1]))
    if 'unreg-h' in names:
        # whatever the interleaving: the engine and the python table agree about H, and what happens next is consistent with it
        cls = c['T']['H']
        engine_custom = optree.tree_structure(cls(), namespace=NSC).kind == optree.PyTreeKind.CUSTOM
        py_entry = optree.register_pytree_node.get(cls, namespace=NSC)
        try:
            one_level = optree.tree_flatten_one_level(cls(), namespace=NSC).kind == optree.PyTreeKind.CUSTOM
        except ValueError:
            one_level = False
        outs = {n_: (s.results[names.index(n_)][1] if s.results[names.index(n_)][0] == 'ok' else s.results[names.index(n_)][1]) for n_ in names if n_ in ('unreg-h', 'rereg-h', 'unreg-h2')}
        sink.check(engine_custom == (py_entry is not None) == one_level, 'unregister-vs-register/torn-registry', 'after racing (un)registrations of one (type, namespace) the engine and the python table agree', jid,
                   lambda: dict(engine_custom=engine_custom, python_entry=py_entry is not None, one_level=one_level, outcomes=outs))
        sink.check(all(v in ('unregistered', 'registered', 'ValueError') for v in outs.values()), 'unregister-vs-register/outcome', 'every racing call succeeds or fails with ValueError', jid, outs)
        try:
            optree.unregister_pytree_node(cls, namespace=NSC)
            nxt = 'unregistered'
        except Exception as ex:  # noqa: BLE001
            nxt = type(ex).__name__
        sink.check(nxt == ('unregistered' if engine_custom else 'ValueError'), 'unregister-vs-register/next-unregister', 'a following unregister succeeds iff the type is registered', jid, (nxt, engine_custom))
        sink.count('unregister-vs-register-races')
    if 'unreg-r' in names:
        r = s.results[names.index('unreg-r')]
        sink.check(r == ('ok', 'unregistered'), 'unregistration-failed/unreg-r', 'unregistering a registered type succeeds', jid, repr(r))
        st = optree.tree_structure(c['T']['R'](), namespace=NSC)
        sink.check(st.is_leaf() and optree.register_pytree_node.get(c['T']['R'], namespace=NSC) is None, 'unregistration/final-registry', 'after the unregistration both views agree that the type is gone', jid, repr(st))
    if 'consume-a' in names:
        ra, rb = s.results[names.index('consume-a')], s.results[names.index('consume-b')]
        ok = ra[0] == 'ok' and rb[0] == 'ok'
        if ok:
            got = sorted(ra[1][1] + rb[1][1])
            want = sorted(id(x) for x in c['leaves'])
            ok = got == want
            if ra[1][1] and rb[1][1]:
                sink.count('shared-iter-both-consumed')
        sink.check(ok, 'shared-iterator', 'a shared leaf iterator hands each leaf to exactly one consumer', jid, lambda: (repr(ra)[:300], repr(rb)[:300], len(c['leaves'])))
    if s.blocked_events:
        sink.count('schedules-with-a-thread-blocked-on-a-lock-held-by-a-parked-thread')
        sink.count('blocked-events', s.blocked_events)
    for site, k in s.sites.items():
        sink.count(f'parked-at:{site.split(":")[0]}', k)
    sink.count('schedules')
    sink.case(trace_key, switches >= 2, dict(jid, trace=[f'{t}:{l}' for t, l in s.trace[:30]]) if switches >= 3 else None)


def journal_cases(shard):
    tier, seed, n, i = shard['tier'], shard['seed'], shard['n'], shard['i']
    rng = random.Random(f'{seed}:c17cases')
    cases = []
    cap = harness.scale(120, 6000, tier)
    for k, names in enumerate(all_pairs()):
        cases.append(dict(names=list(names), scen=k % c15.N_SCEN, cap=cap, offset=0))
        if tier != 'quick' or k % 4 == 0:
            cases.append(dict(names=list(names), scen=(k + 3) % c15.N_SCEN, cap=cap, offset=rng.choice([3, 7, 12])))
    for k, names in enumerate(triples(rng, 6 if tier == 'quick' else 60)):
        cases.append(dict(names=list(names), scen=k % c15.N_SCEN, cap=cap, offset=0))
    cases.append(dict(names=['stress'], scen=0, cap=harness.scale(2000, 60000, tier), offset=0))
    return [c for j, c in enumerate(cases) if j % n == i]


WATCHDOG_S = 20


def journal_run(sink, case, sub_start, progress):
    names = case['names']
    if names == ['stress']:
        progress(0)
        stress(sink, case['cap'], case.get('seed', 0), progress)
        return
    ident = dict(ops=names, scenario=case['scen'], yield_offset=case['offset'])
    rng = random.Random(f'c17:{names}:{case["scen"]}')
    counter = [0]
    offset = case['offset']

    def make():
        ops, c = build_ops(names, case['scen'], 0)
        return ops, c

    def one(choices):
        counter[0] += 1
        if counter[0] <= sub_start:
            # resume after a stall: replay is not needed, schedules are independent
            pass
        progress(counter[0])
        faulthandler.dump_traceback_later(WATCHDOG_S + 10, exit=True)
        ops, c = make()
        try:
            solo = [None] * len(names)
            for i, n in enumerate(names):
                if n in COMPARED:
                    solo[i] = ops[i]()  # solo result in this very context (operations are pure)
            if c['shared_iter'] is not None:
                c['shared_iter'] = optree.tree_iter(c['tree'], is_leaf=c15.pred, none_is_leaf=False, namespace=c['ns'])
            old_show = warnings.showwarning
            warnings.showwarning = showwarning_hook
            try:
                s = sched.Schedule(ops, choices, MAX_YIELDS)
                if offset:
                    # start yielding only after `offset` callbacks (reaches later parts of long operations)
                    skip = [offset] * len(names)
                    orig_hook = s.hook

                    def hook(site, obj, s=s, skip=skip, orig_hook=orig_hook):
                        i = getattr(s.tls, 'idx', None)
                        if i is None:
                            return
                        if skip[i] > 0:
                            skip[i] -= 1
                            return
                        orig_hook(site, obj)

                    s.hook = hook
                s.run()
            finally:
                warnings.showwarning = old_show
            check_schedule(sink, s, c, names, solo, ident)
        finally:
            cleanup(c)
            faulthandler.cancel_dump_traceback_later()
        return s

    # DFS part
    cap = case['cap']
    choices = []
    n_dfs = 0
    skip_to = sub_start
    while n_dfs < cap // 2:
        if counter[0] + 1 <= skip_to:
            counter[0] += 1
            n_dfs += 1
            # cannot know the successor without running: fall back to random schedules after a stall
            break
        s = one(choices)
        n_dfs += 1
        nxt = sched.next_choices(s.taken, s.enabled_log)
        if nxt is None:
            sink.count('pairs-exhausted-by-dfs')
            break
        choices = nxt
    # random schedules
    for _ in range(cap - n_dfs):
        ch = [rng.randrange(3) for _ in range(40)]
        if counter[0] + 1 <= skip_to:
            counter[0] += 1
            continue
        one(ch)
    sink.cell('ops', '+'.join(names))


# ------------------------------------------------------------------------------------ preemptive stress
def stress(sink, iters, seed, progress=None):
    """Many threads, microsecond switch interval, mixed operations on shared objects while other
    threads (un)register unrelated types; result oracle at join."""
    old = sys.getswitchinterval()
    sys.setswitchinterval(1e-6)
    faulthandler.dump_traceback_later(1800, exit=True)
    try:
        c = c15.build_ctx(0)
        kw = dict(none_is_leaf=False, namespace=c['ns'])
        ops = {
            'flatten': lambda: canon(optree.tree_flatten(c['tree'], **kw)),
            'with_path': lambda: canon(optree.tree_flatten_with_path(c['tree'], **kw)),
            'iter': lambda: canon(list(optree.tree_iter(c['tree'], **kw))),
            'map': lambda: canon(optree.tree_map(lambda a, b: a, c['tree'], c['rest'], **kw)),
            'unflatten': lambda: canon(c['spec'].unflatten(c['leaves'])),
            'eq': lambda: (c['spec'] == c['spec2'], c['spec'].is_prefix(c['rspec'])),
            'hash': lambda: hash(c['spec']),
            'repr': lambda: repr(c['spec']),
            'pickle': lambda: canon(pickle.loads(pickle.dumps(c['spec']))),
            'paths': lambda: canon((c['spec'].paths(), c['spec'].accessors(), c['spec'].children())),
        }
        solo = {k: f() for k, f in ops.items()}
        errors = []
        counts = collections.Counter()
        stop = threading.Event()
        n_workers = 12

        def worker(wi):
            rng = random.Random(wi)
            names = list(ops)
            for _ in range(iters // n_workers):
                n = rng.choice(names)
                try:
                    r = ops[n]()
                except Exception as e:  # noqa: BLE001
                    r = ('exc', type(e).__name__, str(e)[:100])
                counts[n] += 1
                if r != solo[n]:
                    errors.append((n, repr(r)[:300]))

        def registrar(ri):
            k = 0
            while not stop.is_set():
                k += 1
                cls = type(f'R{ri}_{k}', (namedtuple('B', ['a']) if k % 3 == 0 else object,), {})
                try:
                    with warnings.catch_warnings():
                        warnings.simplefilter('ignore')
                        optree.register_pytree_node(cls, _fl2, _un, namespace=f'stress{ri}')
                        optree.tree_structure(cls(1) if k % 3 == 0 else cls(), namespace=f'stress{ri}')
                        optree.unregister_pytree_node(cls, namespace=f'stress{ri}')
                    counts['register+unregister'] += 1
                except Exception as e:  # noqa: BLE001
                    errors.append(('registrar', repr(e)[:200]))

        ws = [threading.Thread(target=worker, args=(i,)) for i in range(n_workers)]
        rs = [threading.Thread(target=registrar, args=(i,)) for i in range(3)]
        for t in rs + ws:
            t.start()
        beat = 0
        for t in ws:
            while t.is_alive():
                t.join(1.0)
                beat += 1
                if progress is not None:
                    progress(beat)  # heartbeat for the stall watchdog (a stress run is one long step)
        stop.set()
        for t in rs:
            t.join()
        sink.check(not errors, 'stress/result-differs', 'under preemptive scheduling every operation returns what it returns alone', dict(part='stress', threads=n_workers + 3), errors[:5])
        for k, v in counts.items():
            sink.count(f'stress-ops:{k}', v)
        sink.count('stress-runs')
        sink.case(('stress', seed), True, dict(part='stress', operations=dict(counts), switch_interval=1e-6, threads=n_workers + 3))
    finally:
        faulthandler.cancel_dump_traceback_later()
        sys.setswitchinterval(old)


# ------------------------------------------------------------------------------------ driver
_LOCK_FUNC = re.compile(r'(lock_shared|shared_mutex|pthread_rwlock|pthread_mutex_lock|__lll_lock|std::mutex::lock|shared_lock|unique_lock)')
_FRAME_FUNC = re.compile(r'^#(\d+)\s+(?:0x[0-9a-f]+ in )?([^\s(]+)', re.M)


def classify_stall(d):
    """Deadlock verdict from the stack signature: a thread whose innermost frames are a lock
    acquisition called from an optree:: function (it waits for an engine lock while holding the GIL)."""
    gdb = d.get('gdb') or ''
    for th in re.split(r'\nThread \d+ \(', gdb)[1:]:
        funcs = [f for _, f in _FRAME_FUNC.findall(th)]
        for i, f in enumerate(funcs[:14]):
            if f.startswith('optree::'):
                if any(_LOCK_FUNC.search(g) for g in funcs[:i]):
                    return 'deadlock', f.split('<')[0].replace('optree::', '')
                break
    err = d.get('stderr_tail') or ''
    if 'Timeout (' in err and ('register_node' in err or 'registry.py' in err):
        return 'deadlock-python-stacks-only', 'registry'
    return 'inconclusive', None


def shards(tier, seed):
    return [None]


def run_shard(sink, tier, seed, shard):  # noqa: C901
    from concurrent.futures import ThreadPoolExecutor

    from vf import run as vrun

    variants = ['plain'] if tier == 'quick' else ['plain', 'asan', 'tsan']
    n = 14
    for variant in variants:
        log_path = os.path.join(build.VERIF, '.work', f'c17-{variant}-{os.getpid()}-san') if variant != 'plain' else None
        env = build.env_for(variant, log_path=log_path)
        vt = 'quick' if variant != 'plain' else tier

        def one(i, env=env, vt=vt):
            s = type(sink)('x', 'x', 0, 'x')
            deaths = runner.run_journaled(s, 'vf.props.c17', dict(i=i, n=n, tier=vt, seed=seed), env=env, per_worker_timeout=3000, stall_s=WATCHDOG_S, max_restarts=60, resume='case')
            return s, deaths

        with ThreadPoolExecutor(n) as ex:
            results = list(ex.map(one, range(n)))
        for s, deaths in results:
            vrun._merge(sink, vrun._dump(s))
            for d in deaths:
                case = d['case'] or {}
                names = '+'.join(case.get('names', ['?']))
                if d['rc'] == 'stalled' or 'Timeout (' in (d.get('stderr_tail') or ''):
                    verdict, where = classify_stall(d)
                    if verdict.startswith('deadlock'):
                        holder = 'registration' if any(x.startswith('reg') or x == 'unreg' for x in case.get('names', [])) else 'other'
                        sink.violation(f'deadlock/{where}/{holder}-vs-lookup', 'no thread deadlocks: every schedule step completes (bounded progress)',
                                       dict(ops=case.get('names'), scenario=case.get('scen'), schedule_index=d['sub'], variant=variant),
                                       (d.get('gdb') or '')[-2500:] + '\n--- python stacks ---\n' + (d.get('stderr_tail') or '')[-1500:])
                    else:
                        sink.notes.append(f'stall without a lock signature in {names} schedule {d["sub"]}: inconclusive')
                        sink.count('inconclusive-stalls')
                    sink.count('stalls')
                elif d['rc'] == 'timeout':
                    sink.notes.append(f'worker wall-clock watchdog in {names}: inconclusive')
                    sink.count('worker-timeouts')
                else:
                    sink.violation(f'crash/{names}/{d.get("signal") or d["rc"]}/{variant}', 'no thread crashes the interpreter', dict(case=case, schedule_index=d['sub'], variant=variant),
                                   (d.get('stderr_tail') or '')[-2000:])
        if log_path:
            for rep in sanlog.collect(log_path):
                if variant == 'tsan' and rep['frame'] == 'no-repo-frame':
                    # TSan only sees the instrumented extension; races it reports entirely inside the
                    # uninstrumented interpreter / dynamic loader (e.g. dl TLS allocation) are noise
                    sink.count('tsan-reports-outside-the-engine', rep['count'])
                    continue
                sink.violation(f'sanitizer/{rep["kind"]}/{rep["frame"]}', f'no {variant} report under concurrent use', dict(variant=variant, reports=rep['count']), rep['text'][:1800])
        sink.count(f'variant:{variant}')
    if tier != 'quick':
        repo_concurrency_tests(sink)
    sink.extra['distinct_schedule_traces'] = len(sink.fingerprints)


def repo_concurrency_tests(sink):
    """Thorough: the repository's own concurrency tests (thread pools over the whole API) run against the TSan and the ASan build of the
    working tree; race / lock-order / memory reports with an engine frame and interpreter deaths are the oracle."""
    import re
    import shutil
    import subprocess
    import tempfile

    test = os.path.join(build.repo(), 'tests', 'test_concurrent.py')
    if not os.path.exists(test):
        sink.notes.append('tests/test_concurrent.py not found: pass skipped')
        return
    for variant in ('tsan', 'asan'):
        work = tempfile.mkdtemp(prefix=f'c17t-{variant}-', dir=os.path.join(build.VERIF, '.work'))
        log_path = os.path.join(work, 'san')
        env = build.env_for(variant, log_path=log_path)
        env.pop('OPTREE_VERIF', None)
        try:
            cmd = [build.PY, '-m', 'pytest', '-q', '-p', 'no:cacheprovider', '--timeout=2400', '--rootdir', work, '-c', os.devnull, test]
            try:
                r = subprocess.run(cmd, env=env, cwd=work, capture_output=True, text=True, timeout=3600)
            except subprocess.TimeoutExpired:
                sink.notes.append(f'repository concurrency tests under {variant}: watchdog fired (inconclusive for this pass)')
                sink.count('repo-concurrency-tests:timeouts')
                continue
            tail = r.stdout[-2000:]
            m = re.search(r'(\d+) passed', tail)
            sink.count(f'repo-concurrency-tests:{variant}:passed', int(m.group(1)) if m else 0)
            m = re.search(r'(\d+) failed', tail)
            if m:
                sink.count(f'repo-concurrency-tests:{variant}:failed', int(m.group(1)))
                sink.notes.append(f'repository concurrency tests failing on the {variant} build: ' + tail[-400:])
            if r.returncode < 0 or r.returncode > 5:
                sink.violation(f'crash/repo-concurrency-tests/rc={r.returncode}/{variant}', 'no thread crashes the interpreter', dict(variant=variant, part='repo-concurrency-tests'), tail[-1500:] + r.stderr[-500:])
            for rep in sanlog.collect(log_path):
                if variant == 'tsan' and rep['frame'] == 'no-repo-frame':
                    sink.count('tsan-reports-outside-the-engine', rep['count'])
                    continue
                sink.violation(f'sanitizer/{rep["kind"]}/{rep["frame"]}', f'no {variant} report under concurrent use', dict(variant=variant, part='repo-concurrency-tests', reports=rep['count']), rep['text'][:1800])
        finally:
            shutil.rmtree(work, ignore_errors=True)


def finalize(sink, tier, seed):
    sink.require('schedules', 1000)
    sink.require('stress-runs')
    sink.require('shared-iter-both-consumed')
    for k in ('Q', 'NT', 'TC'):
        sink.require(f'same-registration-races:{k}', 5)
    sink.require('unregister-vs-register-races', 20)
    for site in ('pred', 'flatten', 'unflatten', 'f', 'f_node', 'f_leaf', 'key.__hash__', 'key.__eq__', 'key.__lt__', 'key.__repr__', 'meta.__eq__', 'entry.__init__', 'metaclass.__getattr__', 'warnings.showwarning'):
        sink.require(f'parked-at:{site}')
