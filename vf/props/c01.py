"""C01 - flatten then unflatten reconstructs the same tree."""
from __future__ import annotations

import collections

import optree

from vf import gen, harness, refmodel, same
from vf import universe as U

LEVEL = 'exploration'
RULE = (
    'trees generated from seeded descriptions (7 strata: mixed/dicts/custom/seq/none/plain/wide), materialised '
    'through container histories (delete+reinsert, junk holes, move_to_end, defaultdict auto-insert, deque rotation at '
    'maxlen, list churn) x option grid (none_is_leaf x namespace{"",vf,unk} x 8 predicates x dict mode{sorted, '
    'insertion-global, insertion-ns}); a case = (tree description, options); distinct = distinct (description, options); '
    'non-trivial = reference shape has >= 2 internal nodes or a container was built by a non-literal history'
)
ASSUMPTIONS = [
    'structural identity is judged by vf.same (exact types, key order, metadata, leaf identity), independent of optree',
    'leaf identity set comes from the reference model (vf.refmodel), whose agreement with the engine is C02',
    'depth <= 6, fan-out <= 4 (wide stratum: up to 80 children); deeper nesting is exercised by C16',
]


def shards(tier, seed):
    n = 8 if tier == 'quick' else 16
    return [dict(i=i, n=n) for i in range(n)]


class _Abort(Exception):
    pass


def _flatten(sink, ident, what, tree, kw):
    """tree_flatten of a tree the property says can be flattened: an exception is a verdict about optree, not about the harness."""
    try:
        return optree.tree_flatten(tree, **kw)
    except Exception as e:  # noqa: BLE001
        sink.violation(f'flatten-raises/{what}/{type(e).__name__}', 'every pytree (also a rebuilt one, one holding the same object at several positions) can be flattened', ident, repr(e)[:300])
        raise _Abort from None


def check_case(sink, c, o):
    try:
        _check_case(sink, c, o)
    except _Abort:
        pass


def _check_case(sink, c, o):  # noqa: C901
    ident = dict(c.ident(), opt=repr(o))
    kw = o.kw()
    with o.ctx():
        ref = refmodel.flatten(c.tree, o.ref())
        leaf_ids = {id(x) for x in ref.leaves}
        if leaf_ids & same.partial_children_ids(c.tree):
            # guard: a predicate claimed the (args, keywords) containers of an optree partial as
            # leaves; functools.partial re-packs them on construction, so neither identity nor
            # replacement by arbitrary leaves is something partial can honour.
            sink.count('skipped:predicate-claims-partial-args')
            return
        leaves, spec = _flatten(sink, ident, 'tree', c.tree, kw)
        # 1. rebuild
        try:
            rebuilt = spec.unflatten(leaves)
        except Exception as e:  # noqa: BLE001
            sink.violation(f'roundtrip/unflatten-raises/{type(e).__name__}', 'unflatten(flatten(t)) is the same tree', ident, repr(e)[:300])
            return
        d = same.diff(c.tree, rebuilt, leaf_ids=leaf_ids)
        sink.check(d is None, 'roundtrip/not-same', 'unflatten(flatten(t)) is the same tree', ident, d)
        # the leaves handed over in another kind of iterable (rotating through the cases)
        form = ('iterator', 'tuple', 'generator', 'deque', 'dict-values')[c.index % 5]
        as_given = {'iterator': lambda: iter(leaves), 'tuple': lambda: tuple(leaves), 'generator': lambda: (x for x in leaves), 'deque': lambda: collections.deque(leaves),
                    'dict-values': lambda: dict(enumerate(leaves)).values()}[form]()
        rebuilt_b = optree.tree_unflatten(spec, as_given)
        sink.count(f'leaves-given-as:{form}')
        d = same.diff(c.tree, rebuilt_b, leaf_ids=leaf_ids)
        sink.check(d is None, 'roundtrip/tree_unflatten-not-same', 'tree_unflatten(spec, iter(leaves)) is the same tree', ident, d)
        # 1b. the treespec returned by every other flatten entry point rebuilds the tree just the same
        for name, (lv_x, sp_x) in (('tree_flatten_with_path', optree.tree_flatten_with_path(c.tree, **kw)[1:]), ('tree_flatten_with_accessor', optree.tree_flatten_with_accessor(c.tree, **kw)[1:]),
                                   ('tree_structure', (leaves, optree.tree_structure(c.tree, **kw)))):
            d = same.diff(c.tree, sp_x.unflatten(iter(lv_x)), leaf_ids=leaf_ids)
            sink.check(d is None, f'roundtrip/{name}', f'unflattening the treespec returned by {name} with its leaves is the same tree', ident, d)
        # 1c. the same container object sitting at two places of a tree
        if c.index % 6 == 0 and not isinstance(c.tree, U.Leaf):
            twice = (c.tree, c.tree, (c.tree,))
            ref_t = refmodel.flatten(twice, o.ref())
            lv_t, sp_t = _flatten(sink, ident, 'shared-container', twice, kw)
            ok_t = len(lv_t) == len(ref_t.leaves) and all(a is b for a, b in zip(lv_t, ref_t.leaves))
            d = same.diff(twice, sp_t.unflatten(lv_t), leaf_ids={id(x) for x in ref_t.leaves}) if ok_t else 'leaves of a tree that contains one container several times differ from the reference'
            sink.check(d is None, 'roundtrip/shared-container', 'a container object occurring twice in the tree is flattened twice and rebuilt at both places', ident, d)
            sink.count('shared-container-cases')
        # 1d. right afterwards: a twin tree with EQUAL treespec (same key sets, dicts filled in another order, fresh leaves) - whatever the
        #     engine remembers from the call above (memoised treespecs, reused buffers) must not leak into this one
        if c.index % 3 == 0 and any(nd.k in gen.DICTS and len(nd.items) > 1 for nd in c.desc.walk()):
            d_tw = c.desc.copy()
            rng_tw = gen.case_rng(c.seed, 'c01twin', c.index)
            for nd in d_tw.walk():
                if nd.k in gen.DICTS and len(nd.items) > 1:
                    rng_tw.shuffle(nd.items)
            twin, _ = gen.materialize(d_tw, rng_tw)
            ref_tw = refmodel.flatten(twin, o.ref())
            if not ({id(x) for x in ref_tw.leaves} & same.partial_children_ids(twin)):
                lv_tw, sp_tw = _flatten(sink, ident, 'equal-twin', twin, kw)
                ok_tw = len(lv_tw) == len(ref_tw.leaves) and all(a is b for a, b in zip(lv_tw, ref_tw.leaves))
                d = same.diff(twin, sp_tw.unflatten(lv_tw), leaf_ids={id(x) for x in ref_tw.leaves}) if ok_tw else 'leaves of the twin differ from the reference'
                sink.check(d is None, 'roundtrip/equal-twin-afterwards', 'a tree with an equal treespec but another dict insertion order, flattened right after, round-trips to ITS key order', ident, d)
                mapped_tw = optree.tree_map(_ident, twin, **kw)
                d = same.diff(twin, mapped_tw, leaf_ids={id(x) for x in ref_tw.leaves})
                sink.check(d is None, 'identity-map/equal-twin-afterwards', 'tree_map(identity) of the twin is the twin', ident, d)
                sink.count('equal-twins')
        # 2. re-flatten
        leaves2, spec2 = _flatten(sink, ident, 'rebuilt-tree', rebuilt, kw)
        ok = len(leaves2) == len(leaves) and all(a is b for a, b in zip(leaves, leaves2))
        sink.check(ok, 'reflatten/leaves', 're-flattening yields the identical leaves', ident, lambda: (leaves, leaves2))
        sink.check(spec2 == spec and not (spec2 != spec), 'reflatten/spec-eq', 're-flattening yields an equal treespec', ident, lambda: (str(spec), str(spec2)))
        sink.check(hash(spec2) == hash(spec), 'reflatten/spec-hash', 'equal treespecs hash equally', ident, lambda: (str(spec), str(spec2)))
        sink.check(repr(spec2) == repr(spec), 'reflatten/spec-repr', 're-flattening yields the same repr', ident, lambda: (str(spec), str(spec2)))
        # 3. replacement leaves
        n = spec.num_leaves
        sink.check(n == len(leaves), 'num_leaves', 'num_leaves == len(leaves)', ident, lambda: (n, len(leaves)))
        if o.pred in gen.LEAF_CONTENT_PREDS:
            # the predicate looks at the leaf values: a tree rebuilt from other leaves is legitimately classified differently
            sink.count('replacement-skipped:leaf-content-predicate')
            mapped = optree.tree_map(_ident, c.tree, **kw)
            d = same.diff(c.tree, mapped, leaf_ids=leaf_ids)
            sink.check(d is None, 'identity-map', 'tree_map(identity) is the same tree', ident, d)
            sink.case(harness.fp(c.desc.short(), o.key()), harness.nontrivial(ref.shape, c.mat), dict(ident, leaves=len(leaves), treespec=str(spec)[:300]))
            return
        fresh = [U.Leaf(('r', i)) for i in range(n)]
        rebuilt3 = spec.unflatten(fresh)
        leaves3, spec3 = _flatten(sink, ident, 'tree-of-replacement-leaves', rebuilt3, kw)
        ok = len(leaves3) == n and all(a is b for a, b in zip(fresh, leaves3))
        sink.check(ok, 'replace/leaves', 'flatten(unflatten(spec, xs)) returns exactly xs', ident, lambda: (fresh, leaves3))
        sink.check(spec3 == spec, 'replace/spec', 'flatten(unflatten(spec, xs)) has an equal treespec', ident, lambda: (str(spec), str(spec3)))
        # structure of the replacement tree equals original modulo leaves
        d = same.diff(c.tree, rebuilt3, any_ids=leaf_ids)
        sink.check(d is None, 'replace/structure', 'unflatten(spec, xs) has the structure of t', ident, d)
        # 4. identity map
        mapped = optree.tree_map(_ident, c.tree, **kw)
        d = same.diff(c.tree, mapped, leaf_ids=leaf_ids)
        sink.check(d is None, 'identity-map', 'tree_map(identity) is the same tree', ident, d)
    sink.cell(o.none_is_leaf, o.namespace or 'global', o.pred, o.dict_mode)
    for k in ref.shape.kinds():
        sink.cell('kind', k, o.dict_mode)
    for h in c.mat.hist_classes:
        sink.count(f'history:{h}')
    sink.case(harness.fp(c.desc.short(), o.key()), harness.nontrivial(ref.shape, c.mat), dict(ident, leaves=len(leaves), treespec=str(spec)[:300]))


def _ident(x):
    return x


def run_shard(sink, tier, seed, shard):
    n_trees = harness.scale(20000, 320000, tier)
    k = 6 if tier == 'quick' else 8
    opts = gen.all_opts()
    i0, step = (shard or {}).get('i', 0), (shard or {}).get('n', 1)
    for idx in range(i0, n_trees, step):
        c = harness.make_case('c01', seed, idx)
        for o in harness.opts_for(idx, k, opts):
            with harness.reentrant(idx % 8 == 0):
                sink.guard('harness', 'case', dict(c.ident(), opt=repr(o)), lambda: check_case(sink, c, o))
            if idx % 8 == 0:
                sink.count('cases-with-re-entrant-callbacks')
    sink.extra['trees'] = len(range(i0, n_trees, step))


def finalize(sink, tier, seed):
    sink.require('oracle:unflatten(flatten(t)) is the same tree')
    sink.require('shared-container-cases', 100)
    sink.require('equal-twins', 100)
    for form in ('iterator', 'tuple', 'generator', 'deque', 'dict-values'):
        sink.require(f'leaves-given-as:{form}', 100)
    for h in ('delete+reinsert', 'move_to_end', 'deque-rotate-at-maxlen', 'defaultdict-autoinsert'):
        sink.require(f'history:{h}')
