"""C03 - all traversal entry points agree with each other."""
from __future__ import annotations

import functools
import operator

import optree

from vf import gen, harness, refmodel, same
from vf import universe as U

LEVEL = 'exploration'
RULE = (
    'C01 trees x option grid: all-pairs comparison of tree_flatten / _with_path / _with_accessor / tree_leaves / tree_iter / '
    'tree_structure / tree_paths / tree_accessors and of paths()/accessors() recomputed from the treespec; tree_is_leaf / '
    'all_leaves against their definition; reductions against python folds over tree_leaves (int / str / bytes leaves, empty trees, '
    'initial/default/key); error parity on single-fault malformed custom nodes (8 fault classes at random positions) and over-deep '
    'trees. distinct = distinct (description, options); non-trivial = >= 2 internal nodes or non-literal history'
)
ASSUMPTIONS = [
    'no external reference is needed: the oracle is agreement among the entry points themselves',
    'error parity is asserted for inputs carrying exactly one fault (which of two different faults surfaces first is not fixed by the property)',
    'the lazy iterator is exhausted before comparing',
]


def shards(tier, seed):
    n = 8 if tier == 'quick' else 16
    return [dict(i=i, n=n) for i in range(n)]


def _ids(xs):
    return [id(x) for x in xs]


def _eq(a, b):
    return a is b or (type(a) is type(b) and a == b)


def _paths_eq(p, q):
    return len(p) == len(q) and all(len(a) == len(b) and all(_eq(x, y) for x, y in zip(a, b)) for a, b in zip(p, q))


class _Abort(Exception):
    pass


def _spec_paths(sink, ident, sp, what='paths'):
    """treespec.paths() / .accessors() of a treespec that a traversal just returned: raising is a verdict about optree."""
    try:
        return sp.paths() if what == 'paths' else sp.accessors()
    except Exception as e:  # noqa: BLE001
        sink.violation(f'paths/treespec.{what}()-raises/{type(e).__name__}', 'the paths / accessors recomputed later from the treespec alone equal the ones the traversals returned', ident, repr(e)[:300])
        raise _Abort from None


def check_case(sink, c, o):
    try:
        _check_case(sink, c, o)
    except _Abort:
        pass


def _check_case(sink, c, o):  # noqa: C901
    ident = dict(c.ident(), opt=repr(o))
    kw = o.kw()
    with o.ctx():
        # first: no entry point may raise on a well-formed tree (and if one does, all must)
        outcomes = {}
        for name, f in TRAVERSALS.items():
            try:
                f(c.tree, kw)
                outcomes[name] = 'returned'
            except Exception as e:  # noqa: BLE001
                outcomes[name] = type(e).__name__
        if set(outcomes.values()) != {'returned'}:
            raised = sorted(n for n, v in outcomes.items() if v != 'returned')
            sink.violation('error-parity/well-formed-tree/' + '+'.join(raised) + '/' + '+'.join(sorted(set(outcomes.values()) - {'returned'})),
                           'an input that makes one traversal raise makes all of them raise the same exception type (a well-formed tree makes none raise)', ident, outcomes)
            return
        leaves, spec = optree.tree_flatten(c.tree, **kw)
        paths_b, leaves_b, spec_b = optree.tree_flatten_with_path(c.tree, **kw)
        acc_c, leaves_c, spec_c = optree.tree_flatten_with_accessor(c.tree, **kw)
        leaves_d = optree.tree_leaves(c.tree, **kw)
        leaves_e = list(optree.tree_iter(c.tree, **kw))
        spec_f = optree.tree_structure(c.tree, **kw)
        paths_g = optree.tree_paths(c.tree, **kw)
        acc_h = optree.tree_accessors(c.tree, **kw)
        for name, lv in (('with_path', leaves_b), ('with_accessor', leaves_c), ('tree_leaves', leaves_d), ('tree_iter', leaves_e)):
            sink.check(_ids(lv) == _ids(leaves), f'leaves/{name}', f'{name} returns the identical leaves as tree_flatten', ident, lambda: (lv, leaves))
        for name, sp in (('with_path', spec_b), ('with_accessor', spec_c), ('tree_structure', spec_f)):
            sink.check(sp == spec and spec == sp and not (sp != spec), f'spec-eq/{name}', f'{name} returns an equal treespec', ident, lambda: (str(sp), str(spec)))
            sink.check(hash(sp) == hash(spec), f'spec-hash/{name}', f'{name} treespec hashes equally', ident, lambda: (str(sp), str(spec)))
            sink.check(repr(sp) == repr(spec), f'spec-repr/{name}', f'{name} treespec has the same repr', ident, lambda: (str(sp), str(spec)))
        # observational equality of the treespecs: each entry point's treespec rebuilds the input from that entry point's leaves
        lids = {id(x) for x in leaves}
        if not (lids & same.partial_children_ids(c.tree)):
            for name, sp, lv in (('with_path', spec_b, leaves_b), ('with_accessor', spec_c, leaves_c), ('tree_structure', spec_f, leaves_d)):
                d = same.diff(c.tree, sp.unflatten(lv), leaf_ids=lids)
                sink.check(d is None, f'spec-unflatten/{name}', f'the treespec returned by {name} rebuilds the same tree (types, key order, metadata, leaves)', ident, d)
                sink.check(_paths_eq(_spec_paths(sink, ident, sp), _spec_paths(sink, ident, spec)) and [tuple(e.entry for e in a) for a in _spec_paths(sink, ident, sp, 'accessors')] == [tuple(e.entry for e in a) for a in _spec_paths(sink, ident, spec, 'accessors')]
                           and sp.num_nodes == spec.num_nodes and sp.num_leaves == spec.num_leaves,
                           f'spec-paths/{name}', f'the treespec returned by {name} has the same paths, accessors and counts', ident)
        # the lazy iterator, consumed in pieces with other operations (on the same tree and treespec) in between, and two iterators
        # over the same tree advanced alternately
        it1, it2 = optree.tree_iter(c.tree, **kw), optree.tree_iter(c.tree, **kw)
        got1, got2 = [], []
        rng_it = gen.case_rng(c.seed, 'c03it', c.index)
        for step in range(4 * len(leaves) + 8):
            which = rng_it.random()
            try:
                if which < 0.45:
                    got1.append(next(it1))
                elif which < 0.8:
                    got2.append(next(it2))
                elif which < 0.9:
                    optree.tree_flatten(c.tree, **kw)
                    hash(spec)
                else:
                    spec.unflatten(leaves)
                    optree.tree_leaves(c.tree, **kw)
            except StopIteration:
                pass
        got1.extend(it1)
        got2.extend(it2)
        sink.check(_ids(got1) == _ids(leaves) and _ids(got2) == _ids(leaves), 'leaves/tree_iter-interleaved', 'a lazily, piecewise consumed tree_iter yields the identical leaves in the identical order', ident,
                   lambda: (got1, got2, leaves))
        sink.check(next(it1, 'done') == 'done' and next(it2, 'done') == 'done', 'tree_iter/exhausted-stays-exhausted', 'an exhausted iterator stays exhausted', ident)
        later_paths = _spec_paths(sink, ident, spec)
        later_acc = _spec_paths(sink, ident, spec, 'accessors')
        sink.check(_paths_eq(paths_b, later_paths), 'paths/with_path-vs-spec', 'flatten_with_path paths equal treespec.paths()', ident, lambda: (paths_b, later_paths))
        sink.check(_paths_eq(paths_g, later_paths), 'paths/tree_paths-vs-spec', 'tree_paths equal treespec.paths()', ident, lambda: (paths_g, later_paths))
        sink.check(_paths_eq(optree.treespec_paths(spec_b), later_paths), 'paths/treespec_paths', 'treespec_paths agrees', ident)
        n = spec.num_leaves
        sink.check(len(paths_b) == len(acc_c) == len(leaves) == len(acc_h) == len(paths_g) == n == len(spec), 'counts', '#paths == #accessors == #leaves == num_leaves', ident,
                   lambda: (len(paths_b), len(acc_c), len(leaves), n))
        ok = len(acc_c) == len(later_acc) == len(acc_h) and all(
            _paths_eq([a.path], [b.path]) and [type(e) for e in a] == [type(e) for e in b] and [e.type for e in a] == [e.type for e in b]
            and [e.kind for e in a] == [e.kind for e in b]
            for a, b in zip(acc_c, later_acc)
        ) and all(_paths_eq([a.path], [b.path]) and [type(e) for e in a] == [type(e) for e in b] for a, b in zip(acc_h, later_acc))
        sink.check(ok, 'accessors/vs-spec', 'accessors from flatten equal treespec.accessors()', ident, lambda: (acc_c, later_acc))
        sink.check(_paths_eq([a.path for a in acc_c], later_paths), 'accessors/path', 'accessor.path equals the path', ident)
        # tree_is_leaf / all_leaves
        is_leaf_root = optree.tree_is_leaf(c.tree, **kw)
        want = len(leaves) == 1 and leaves[0] is c.tree and spec.is_leaf()
        sink.check(is_leaf_root == want, 'tree_is_leaf/root', 'tree_is_leaf(x) iff flatten(x) == ([x], leaf spec)', ident, lambda: (is_leaf_root, want))
        probes = list(leaves[:6])
        sh_children = []
        try:
            sh_children = [spec.child(i) for i in range(min(spec.num_children, 3))]
        except Exception:  # noqa: BLE001
            pass
        for x in probes:
            il = optree.tree_is_leaf(x, **kw)
            lx, sx = optree.tree_flatten(x, **kw)
            sink.check(il == (len(lx) == 1 and lx[0] is x and sx.is_leaf()), 'tree_is_leaf/leaf', 'tree_is_leaf agrees with flatten on flattened leaves', ident, lambda: (x, il))
            sink.check(il, 'tree_is_leaf/flattened-leaf-is-leaf', 'every flattened leaf is a leaf under the same options', ident, lambda: x)
        al = optree.all_leaves(leaves, **kw)
        sink.check(al is True, 'all_leaves/leaves', 'all_leaves(flattened leaves) holds', ident)
        mixed = [c.tree, *leaves[:3]]
        al2 = optree.all_leaves(mixed, **kw)
        sink.check(al2 == all(optree.tree_is_leaf(x, **kw) for x in mixed), 'all_leaves/definition', 'all_leaves(xs) iff every element is a leaf', ident)
        sink.check(optree.all_leaves([], **kw) is True, 'all_leaves/empty', 'all_leaves([])', ident)
        # all_leaves on arbitrary mixtures of the tree's sub-objects (consecutive elements of one type with
        # different verdicts, leaves by predicate next to nodes, generators as the iterable)
        rng = gen.case_rng(c.seed, 'c03al', c.index)
        subs = same.subobjects(c.tree)
        for r in range(6):
            xs = [rng.choice(subs) for _ in range(rng.randrange(1, 6))]
            if r % 2:
                xs.sort(key=lambda x: type(x).__name__)  # group equal types next to each other
            want_al = all(optree.tree_is_leaf(x, **kw) for x in xs)
            got_al = optree.all_leaves(iter(xs) if r == 5 else xs, **kw)
            sink.check(got_al == want_al, 'all_leaves/mixture', 'all_leaves(xs) holds exactly when every element is a leaf', ident, lambda: dict(xs=xs, got=got_al, want=want_al))
            if not want_al:
                sink.count('all_leaves-false-cases')
        for x in subs[:8]:
            il = optree.tree_is_leaf(x, **kw)
            lx, sx = optree.tree_flatten(x, **kw)
            sink.check(il == (len(lx) == 1 and lx[0] is x and sx.is_leaf()), 'tree_is_leaf/subobject', 'tree_is_leaf(x) iff flatten(x) == ([x], leaf spec)', ident, lambda: (x, il))
    # right afterwards, a twin with an EQUAL treespec but other key objects / insertion order (6 vs 6.0, shuffled dicts): paths and accessors
    # are those of the twin, not of whatever was traversed before
    if c.index % 3 == 0:
        rng_tw = gen.case_rng(c.seed, 'c03twin', c.index)
        d_tw, n_ed = gen.neutral_edit(c.desc, rng_tw)
        if n_ed:
            twin, _ = gen.materialize(d_tw, rng_tw)
            with o.ctx():
                acc_t, lv_t, sp_t = optree.tree_flatten_with_accessor(twin, **kw)
                paths_t, lv_t2, _ = optree.tree_flatten_with_path(twin, **kw)
                acc_t2 = optree.tree_accessors(twin, **kw)
                ok_t = (_ids(lv_t) == _ids(lv_t2) and _paths_eq([a.path for a in acc_t], paths_t) and _paths_eq([a.path for a in acc_t2], paths_t)
                        and _paths_eq(sp_t.paths(), paths_t) and _paths_eq([a.path for a in sp_t.accessors()], paths_t))
                hit = True
                try:
                    hit = all(a(twin) is l for a, l in zip(acc_t, lv_t)) and all(a(twin) is l for a, l in zip(acc_t2, lv_t))
                except Exception as e:  # noqa: BLE001
                    hit = repr(e)
            sink.check(ok_t and hit is True, 'twin-afterwards/paths-accessors', 'paths and accessors of a tree with an equal treespec traversed right after are its own (key objects, order, reachability)', ident,
                       lambda: dict(hit=hit, paths=paths_t[:6], acc=[a.path for a in acc_t][:6]))
            sink.count('equal-twins')
    sink.cell(o.none_is_leaf, o.namespace or 'global', o.pred, o.dict_mode)
    ref_like = spec.num_nodes - spec.num_leaves
    sink.case(harness.fp(c.desc.short(), o.key()), ref_like >= 2 or bool(c.mat.hist_classes), dict(ident, num_leaves=n, treespec=str(spec)[:200]))


def reduce_case(sink, seed, idx):  # noqa: C901
    rng = gen.case_rng(seed, 'c03red', idx)
    desc, prof = gen.gen_desc(rng, rng.choice(['plain', 'none', 'seq', 'mixed']), 16)
    style = rng.choice(['int', 'str', 'bytes', 'bool', 'seq', 'seq'])
    cnt = [0]

    def leaf_of(d):
        cnt[0] += 1
        if style == 'int':
            return rng.randrange(-50, 50)
        if style == 'str':
            return rng.choice(['a', 'bb', '', 'c'])
        if style == 'bytes':
            return rng.choice([b'a', b'', b'xy'])
        if style == 'seq':
            # iterable leaves of several types: only some of them can be added to a given start value
            n = rng.randrange(5)
            pure = idx % 3 == 0
            return rng.choice([U.ListSub([n]), U.ListSub([n, n])] if pure else [U.ListSub([n]), U.ListSub([]), U.TupleSub((n,)), 'ab', frozenset([n]), b'x'])
        return rng.random() < 0.6

    tree, _ = gen.materialize(desc, rng, leaf_of=leaf_of)
    nil = rng.random() < 0.25  # None leaves make the arithmetic folds raise in python and in optree alike (parity of the exception type)
    ns = rng.choice(U.NAMESPACES)
    pred = rng.choice(['none', 'none', 'is_list', 'pair', 'short_list'])
    kw = dict(none_is_leaf=nil, namespace=ns, is_leaf=gen.PREDICATES[pred])
    ident = dict(gen='c03red', seed=seed, index=idx, style=style, desc=desc.short()[:300], ns=ns, nil=nil, pred=pred)
    lv = [x for x in optree.tree_leaves(tree, **kw)]
    # custom leaves (CNs outside its namespace etc.) may be non-numeric: restrict folds to what python can fold

    def both(name, f_opt, f_py):
        try:
            want = ('ok', f_py())
        except Exception as e:  # noqa: BLE001
            want = ('exc', type(e))
        try:
            got = ('ok', f_opt())
        except Exception as e:  # noqa: BLE001
            got = ('exc', type(e))
        same = got == want or (got[0] == want[0] == 'ok' and got[1] is want[1])
        sink.check(same, f'reduce/{name}', f'{name} equals the python fold over tree_leaves', ident, lambda: (got, want, lv))

    both('tree_reduce', lambda: optree.tree_reduce(operator.add, tree, **kw), lambda: functools.reduce(operator.add, lv))
    init = {'int': 100, 'str': 'I', 'bytes': b'I', 'bool': 0, 'seq': []}[style]
    both('tree_reduce/initial', lambda: optree.tree_reduce(operator.add, tree, init, **kw), lambda: functools.reduce(operator.add, lv, init))
    if style in ('int', 'bool'):
        both('tree_sum', lambda: optree.tree_sum(tree, **kw), lambda: sum(lv))
        both('tree_sum/start', lambda: optree.tree_sum(tree, 10, **kw), lambda: sum(lv, 10))
    elif style == 'seq':
        for st in ([], ['s'], (), ('s',)):
            both(f'tree_sum/{type(st).__name__}-start', lambda: optree.tree_sum(tree, st, **kw), lambda: sum(lv, st))
        sink.count('reduce-seq-cases')
    elif style == 'str':
        both('tree_sum/str', lambda: optree.tree_sum(tree, 'S', **kw), lambda: ''.join(['S', *lv]))
    else:
        both('tree_sum/bytes', lambda: optree.tree_sum(tree, b'S', **kw), lambda: b''.join([b'S', *lv]))
    key = rng.choice([None, lambda x: (len(x) if hasattr(x, '__len__') else -x)])
    both('tree_max', lambda: optree.tree_max(tree, key=key, **kw), lambda: max(lv, key=key))
    both('tree_min', lambda: optree.tree_min(tree, key=key, **kw), lambda: min(lv, key=key))
    both('tree_max/default', lambda: optree.tree_max(tree, default='D', key=key, **kw), lambda: max(lv, default='D', key=key))
    both('tree_min/default', lambda: optree.tree_min(tree, default='D', key=key, **kw), lambda: min(lv, default='D', key=key))
    both('tree_all', lambda: optree.tree_all(tree, **kw), lambda: all(lv))
    both('tree_any', lambda: optree.tree_any(tree, **kw), lambda: any(lv))
    sink.count('reduce-cases')
    if not lv:
        sink.count('reduce-empty-trees')
    sink.cell('reduce', style, nil, pred)
    sink.case(harness.fp('red', desc.short(), style, ns, nil, pred), len(lv) >= 2, dict(ident, leaves=len(lv)))


TRAVERSALS = {
    'tree_flatten': lambda t, kw: optree.tree_flatten(t, **kw),
    'tree_flatten_with_path': lambda t, kw: optree.tree_flatten_with_path(t, **kw),
    'tree_flatten_with_accessor': lambda t, kw: optree.tree_flatten_with_accessor(t, **kw),
    'tree_leaves': lambda t, kw: optree.tree_leaves(t, **kw),
    'tree_iter': lambda t, kw: list(optree.tree_iter(t, **kw)),
    'tree_structure': lambda t, kw: optree.tree_structure(t, **kw),
    'tree_paths': lambda t, kw: optree.tree_paths(t, **kw),
    'tree_accessors': lambda t, kw: optree.tree_accessors(t, **kw),
}


def error_case(sink, seed, idx):
    """One fault per input: a malformed custom node somewhere, or an over-deep tree."""
    rng = gen.case_rng(seed, 'c03err', idx)
    if idx % 9 == 8:
        fault = 'over-deep'
        t = U.Leaf(0)
        kind = rng.choice(['list', 'tuple', 'dict', 'cseq'])
        for _ in range(optree.MAX_RECURSION_DEPTH + rng.randrange(1, 4)):
            t = [t] if kind == 'list' else (t,) if kind == 'tuple' else {'k': t} if kind == 'dict' else U.CSeq([t])
        tree, ns = t, rng.choice(['', U.NS_BAD])
    else:
        cls = U.BAD_CLASSES[idx % len(U.BAD_CLASSES)]
        fault = cls.__name__
        n_kids = rng.randrange(0, 3)
        if n_kids == 0 and cls is U.BadEntriesShort:
            n_kids = 1  # with no children "one entry too few" is not expressible
        bad = cls([U.Leaf(1), U.Leaf(2)][:n_kids])
        fault = f'{cls.__name__}/{n_kids}-children'
        desc, _ = gen.gen_desc(rng, 'plain', 10)
        holder, _ = gen.materialize(desc, rng)
        wrap = rng.choice(['root', 'list', 'dict', 'tuple-last', 'nested'])
        tree = {'root': bad, 'list': [holder, bad], 'dict': {'a': holder, 'z': bad}, 'tuple-last': (holder, holder, bad), 'nested': [[(bad,)], holder]}[wrap]
        ns = U.NS_BAD
    nil = rng.random() < 0.3
    kw = dict(none_is_leaf=nil, namespace=ns)
    ident = dict(gen='c03err', seed=seed, index=idx, fault=fault, ns=ns)
    outcomes = {}
    for name, f in TRAVERSALS.items():
        try:
            f(tree, kw)
            outcomes[name] = 'returned'
        except Exception as e:  # noqa: BLE001
            outcomes[name] = type(e).__name__
    kinds = set(outcomes.values())
    sink.check(len(kinds) == 1 and 'returned' not in kinds, f'error-parity/{fault}', 'an input that makes one traversal raise makes all raise the same exception type', ident, lambda: outcomes)
    sink.count(f'error-class:{fault.split("/")[0]}')
    sink.count(f'error-class-arity:{fault}')
    for k in kinds:
        sink.count(f'error-type:{k}')
    sink.case(harness.fp('err', fault, idx % 45, nil), True, dict(ident, outcomes=outcomes))


def run_shard(sink, tier, seed, shard):
    n_trees = harness.scale(12000, 160000, tier)
    n_red = harness.scale(8000, 100000, tier)
    n_err = harness.scale(1440, 9000, tier)
    k = 5 if tier == 'quick' else 8
    opts = gen.all_opts()
    i0, step = (shard or {}).get('i', 0), (shard or {}).get('n', 1)
    for idx in range(i0, n_trees, step):
        c = harness.make_case('c03', seed, idx)
        for o in harness.opts_for(idx, k, opts):
            with harness.reentrant(idx % 8 == 0):
                sink.guard('harness', 'case', dict(c.ident(), opt=repr(o)), lambda: check_case(sink, c, o))
            if idx % 8 == 0:
                sink.count('cases-with-re-entrant-callbacks')
    for idx in range(i0, n_red, step):
        sink.guard('harness', 'reduce', dict(index=idx), lambda: reduce_case(sink, seed, idx))
    for idx in range(i0, n_err, step):
        sink.guard('harness', 'error', dict(index=idx), lambda: error_case(sink, seed, idx))


def finalize(sink, tier, seed):
    sink.require('oracle:tree_iter returns the identical leaves as tree_flatten')
    sink.require('reduce-cases')
    sink.require('equal-twins', 100)
    sink.require('reduce-seq-cases', 100)
    sink.require('all_leaves-false-cases', 100)
    sink.require('reduce-empty-trees')
    sink.require('error-class:over-deep')
    for cls in U.BAD_CLASSES:
        sink.require(f'error-class:{cls.__name__}')
