"""C02 - leaf order and node/leaf classification follow the documented rules (differential)."""
from __future__ import annotations

import itertools

import optree

from vf import gen, harness, refmodel, specview
from vf import universe as U

LEVEL = 'exploration'
RULE = (
    'C01 trees (incl. subclass-instance leaves, namedtuple subclasses, struct sequences, shadowed registrations, 15 key '
    'styles incl. mixed / unorderable / half-way failing sorts) x option grid, judged against vf.refmodel (an executable '
    'transcription of the README rules); plus every permutation (n<=5) of dict insertion order for totally ordered key sets, '
    'the None-removal law and the predicate-idempotence law. distinct = distinct (description, options); non-trivial = '
    '>= 2 internal nodes or a non-literal container history'
)
ASSUMPTIONS = [
    'vf.refmodel is a second reading of the same documentation (README "Key Ordering", "None is Non-leaf Node", registry notes)',
    'custom node behaviour is taken from the harness\'s own registration table, not from optree\'s registry',
    'on partially ordered keys (frozenset, NaN) only agreement with sorted() on the insertion-order input is demanded',
]


def shards(tier, seed):
    n = 8 if tier == 'quick' else 16
    return [dict(i=i, n=n) for i in range(n)]


def _ids(xs):
    return [id(x) for x in xs]


def sort_key(ref, c):
    """Mechanism key component for sort-related disagreements."""
    st = set(ref.sort_stages)
    if 3 in st:
        return 'sort-stage3'
    if 2 in st:
        return 'sort-stage2'
    return 'sorted'


def check_case(sink, c, o):  # noqa: C901
    ident = dict(c.ident(), opt=repr(o))
    kw = o.kw()
    flattened_objs = []

    def hook(site, obj):
        if site.startswith('flatten:'):
            flattened_objs.append(obj)

    with o.ctx():
        ref = refmodel.flatten(c.tree, o.ref())
        sk = sort_key(ref, c)
        U.HOOK[0] = hook
        try:
            leaves, spec = optree.tree_flatten(c.tree, **kw)
        finally:
            U.HOOK[0] = None
        sink.check(_ids(leaves) == _ids(ref.leaves), f'leaves-vs-reference/{sk}', 'tree_flatten leaves equal the reference leaves (identity, order)', ident,
                   lambda: dict(engine=leaves, reference=ref.leaves))
        d = specview.match(spec, ref.shape)
        sink.check(d is None, f'structure-vs-reference/{sk}', 'treespec equals the reference structure', ident, lambda: dict(diff=d, spec=str(spec)))
        exp_ns = refmodel.expected_namespace(ref, o.ref(), o.ins_in_current_ns)
        sink.check(spec.namespace == exp_ns, 'namespace-recorded', 'treespec.namespace is the documented one', ident, lambda: (spec.namespace, exp_ns))
        sink.check(spec.none_is_leaf == o.none_is_leaf, 'none_is_leaf-recorded', 'treespec.none_is_leaf', ident)
        exp_repr = refmodel.render_spec(ref.shape, o.none_is_leaf, exp_ns)
        sink.check(repr(spec) == exp_repr, f'repr-vs-reference/{sk}', 'repr follows the documented notation', ident, lambda: dict(engine=repr(spec), reference=exp_repr))
        # predicate before registry lookup: no custom flatten on a claimed object
        if o.is_leaf is not None:
            bad = [x for x in flattened_objs if o.is_leaf(x)]
            sink.check(not bad, 'predicate-after-lookup', 'flatten_func never runs on an object the predicate claimed', ident, lambda: bad)
        # the other observation points
        lv = optree.tree_leaves(c.tree, **kw)
        sink.check(_ids(lv) == _ids(ref.leaves), f'tree_leaves-vs-reference/{sk}', 'tree_leaves equals the reference leaves', ident, lambda: (lv, ref.leaves))
        st = optree.tree_structure(c.tree, **kw)
        sink.check(st == spec and repr(st) == exp_repr, f'tree_structure-vs-reference/{sk}', 'tree_structure equals the reference structure', ident, lambda: (repr(st), exp_repr))
        # (b) None removal law (no predicate claims None)
        if o.pred in ('none', 'never', 'is_list', 'dictish', 'pair', 'custom'):
            l_node = optree.tree_leaves(c.tree, is_leaf=o.is_leaf, none_is_leaf=False, namespace=o.namespace)
            l_leaf = optree.tree_leaves(c.tree, is_leaf=o.is_leaf, none_is_leaf=True, namespace=o.namespace)
            sink.check(_ids(l_node) == _ids([x for x in l_leaf if x is not None]), 'none-removal-law',
                       'leaves(none_is_leaf=False) == leaves(True) minus None', ident, lambda: (l_node, l_leaf))
        # (c) predicate idempotence: flatten the leaves obtained under a predicate
        if o.is_leaf is not None:
            plain = optree.tree_leaves(c.tree, none_is_leaf=o.none_is_leaf, namespace=o.namespace)
            again = optree.tree_leaves(leaves, none_is_leaf=o.none_is_leaf, namespace=o.namespace)
            sink.check(_ids(plain) == _ids(again), 'predicate-idempotence', 'leaves(leaves(t, is_leaf=p)) == leaves(t)', ident, lambda: (plain, again))
        # tree_replace_nones
        if o.pred == 'none':
            sentinel = U.Leaf('sentinel')
            rep = optree.tree_replace_nones(sentinel, c.tree, namespace=o.namespace)
            got = optree.tree_leaves(rep, none_is_leaf=True, namespace=o.namespace)
            ref_t = refmodel.flatten(c.tree, refmodel.Opts(True, o.namespace, None, o.insertion))
            want = [sentinel if x is None else x for x in ref_t.leaves]
            sink.check(_ids(got) == _ids(want), 'replace-nones', 'tree_replace_nones replaces exactly the None nodes', ident, lambda: (got, want))
    sink.cell(o.none_is_leaf, o.namespace or 'global', o.pred, o.dict_mode)
    for st_ in set(ref.sort_stages):
        sink.count(f'sort-stage:{st_}')
    for k in ref.shape.kinds():
        sink.cell('kind', k)
    sink.case(harness.fp(c.desc.short(), o.key()), harness.nontrivial(ref.shape, c.mat), dict(ident, reference_repr=exp_repr[:300]))


def perm_case(sink, seed, idx):
    """(a) equal dicts flatten identically regardless of insertion order (totally ordered keys)."""
    rng = gen.case_rng(seed, 'c02perm', idx)
    style = rng.choice(sorted(gen.TOTAL_STYLES))
    n = rng.randrange(2, 6)
    keys = gen.gen_keys(rng, n, style)
    vals = [U.Leaf(i) if rng.random() < 0.7 else (U.Leaf(i), [U.Leaf((i, 1))]) for i in range(len(keys))]
    kind = rng.choice(['dict', 'ddict'])
    nil = rng.random() < 0.3
    ns = rng.choice(U.NAMESPACES)
    base = None
    ident = dict(gen='c02perm', seed=seed, index=idx, style=style, keys=repr(keys), kind=kind)
    perms = list(itertools.permutations(range(len(keys))))
    if len(perms) > 120:
        perms = rng.sample(perms, 120)
    for p in perms:
        pairs = [(keys[i], vals[i]) for i in p]
        d = dict(pairs) if kind == 'dict' else __import__('collections').defaultdict(int, pairs)
        wrapped = [d, {'w': d}] if idx % 2 else d
        leaves, spec = optree.tree_flatten(wrapped, none_is_leaf=nil, namespace=ns)
        if base is None:
            base = (leaves, spec, p)
            continue
        ok = _ids(leaves) == _ids(base[0])
        sink.check(ok, 'perm/leaves', 'equal dicts flatten to identical leaves regardless of insertion order', dict(ident, perm=p, base=base[2]),
                   lambda: (leaves, base[0]))
        sink.check(spec == base[1] and hash(spec) == hash(base[1]), 'perm/spec', 'equal dicts flatten to equal treespecs', dict(ident, perm=p, base=base[2]),
                   lambda: (str(spec), str(base[1])))
    sink.count('perm-sets')
    sink.case(harness.fp('perm', style, repr(keys), kind, nil, ns), len(keys) >= 3, dict(ident, permutations=len(perms)))


def run_shard(sink, tier, seed, shard):
    # the universe's set-up history (register in three named namespaces and globally, unregister all but one) is itself an input
    sink.check(not U.HISTORY_ERRORS, 'registry-history/step-failed', 'unregistering a type from one namespace leaves its other registrations alone (set-up history of the universe)', dict(shard=shard),
               list(U.HISTORY_ERRORS))
    n_trees = harness.scale(16000, 250000, tier)
    n_perm = harness.scale(2400, 40000, tier)
    k = 6 if tier == 'quick' else 8
    opts = gen.all_opts()
    i0, step = (shard or {}).get('i', 0), (shard or {}).get('n', 1)
    for idx in range(i0, n_trees, step):
        c = harness.make_case('c02', seed, idx)
        for o in harness.opts_for(idx, k, opts):
            sink.guard('harness', 'case', dict(c.ident(), opt=repr(o)), lambda: check_case(sink, c, o))
    for idx in range(i0, n_perm, step):
        sink.guard('harness', 'perm', dict(index=idx), lambda: perm_case(sink, seed, idx))


def finalize(sink, tier, seed):
    sink.require('oracle:tree_flatten leaves equal the reference leaves (identity, order)')
    sink.require('sort-stage:2')
    sink.require('sort-stage:3')
    sink.require('perm-sets')
