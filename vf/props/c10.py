"""C10 - transposition swaps outer and inner structure without losing or moving values."""
from __future__ import annotations

import optree

from vf import gen, harness, refmodel, same
from vf import universe as U

LEVEL = 'exploration'
RULE = (
    'pairs (outer, inner) of generated trees with >= 1 leaf each (m, n up to ~15), an outer-of-inner tree built with unique leaves; index law '
    'out[j][i] is in[i][j], involution, shape = inner.compose(outer), the documented rejections (empty structures, none_is_leaf / namespace '
    'mismatch, wrong leaf count); tree_transpose_map* against transposing tree_map* with fixed, given and deviating inner shapes. '
    'distinct = distinct (outer, inner, options); non-trivial = m*n >= 4 and both have an internal node'
)
ASSUMPTIONS = [
    'f is memoised per leaf so that two invocations return the same leaf objects (needed to compare two runs by identity)',
    'a later result that is a strict suffix of the inner structure is accepted by the implementation (it is matched as a prefix); only non-suffix deviations must raise',
]


# the property says these inputs 'raise' without naming the exception type: any Python exception other than an internal error counts
NOT_A_REJECTION = ('ok', 'SystemError', 'InternalError', 'MemoryError', 'RecursionError')


def shards(tier, seed):
    n = 8 if tier == 'quick' else 16
    return [dict(i=i, n=n) for i in range(n)]


def outcome(f):
    try:
        return 'ok', f()
    except Exception as e:  # noqa: BLE001
        return type(e).__name__, e


def _eq(a, b):
    return a is b or (type(a) is type(b) and a == b)


def neutral_variant(x, rng):
    """The same values in containers that MATCH the original for the prefix relation but flatten in another order / are of another dict
    kind: dict kinds are rebuilt with their keys reversed (sometimes as another standard dict kind), sequences are rebuilt recursively."""
    from collections import OrderedDict, defaultdict, deque

    t = type(x)
    if t in (dict, OrderedDict, defaultdict):
        items = [(k, neutral_variant(v, rng)) for k, v in reversed(list(x.items()))]
        kind = rng.choice([t, dict, OrderedDict, defaultdict])
        return defaultdict(getattr(x, 'default_factory', None) or int, items) if kind is defaultdict else kind(items)
    if t is list:
        return [neutral_variant(v, rng) for v in x]
    if t is tuple:
        return tuple(neutral_variant(v, rng) for v in x)
    if t is deque:
        return deque((neutral_variant(v, rng) for v in x), maxlen=x.maxlen)
    return x


def check_case(sink, seed, idx):  # noqa: C901
    rng = gen.case_rng(seed, 'c10', idx)
    po = ['plain', 'mixed', 'dicts', 'custom', 'seq', 'none'][idx % 6]
    pi = ['plain', 'seq', 'mixed', 'dicts', 'custom'][(idx // 6) % 5]
    od, _ = gen.gen_desc(rng, po, 8)
    idesc, _ = gen.gen_desc(rng, pi, 6)
    o = gen.rand_opt(rng, preds=('none', 'none', 'none', 'is_list'))
    kw = o.kw()
    ident = dict(gen='c10', seed=seed, index=idx, outer=od.short()[:200], inner=idesc.short()[:200], opt=repr(o))
    with o.ctx():
        otree, _ = gen.materialize(od, rng)
        oref = refmodel.flatten(otree, o.ref())
        ospec = optree.tree_structure(otree, **kw)
        itree0, _ = gen.materialize(idesc, rng)
        iref = refmodel.flatten(itree0, o.ref())
        ispec = optree.tree_structure(itree0, **kw)
        m, n = ospec.num_leaves, ispec.num_leaves
        if same.partial_children_ids(otree) & {id(x) for x in oref.leaves} or same.partial_children_ids(itree0) & {id(x) for x in iref.leaves}:
            sink.count('skipped:predicate-claims-partial-args')
            return
        if m == 0 or n == 0:
            # rejection: empty structures
            leaf = optree.treespec_leaf(none_is_leaf=o.none_is_leaf)
            k, v = outcome(lambda: optree.tree_transpose(ospec, ispec, otree, is_leaf=o.is_leaf))
            sink.check(k not in NOT_A_REJECTION, 'reject/empty-structure', 'an empty outer or inner structure raises', ident, lambda: (k, repr(v)[:200]))
            sink.count('rejections:empty')
            return
        # build the outer-of-inner tree: inner copy i carries leaves (i, j)
        grid = [[U.Leaf((i, j)) for j in range(n)] for i in range(m)]
        inners = [ispec.unflatten(grid[i]) for i in range(m)]
        tree = ospec.unflatten(inners)
        k, res = outcome(lambda: optree.tree_transpose(ospec, ispec, tree, is_leaf=o.is_leaf))
        sink.check(k == 'ok', f'transpose/raises/{k}', 'transposing a well-formed outer-of-inner tree succeeds', ident, lambda: repr(res)[:300])
        if k != 'ok':
            return
        lv, rspec = optree.tree_flatten(res, **kw)
        want_spec = ispec.compose(ospec)
        sink.check(rspec == want_spec, 'transpose/shape', 'the result is shaped inner-of-outer', ident, lambda: (repr(rspec), repr(want_spec)))
        ok = len(lv) == m * n and all(lv[j * m + i] is grid[i][j] for i in range(m) for j in range(n))
        sink.check(ok, 'transpose/index-law', 'value at (inner leaf j, outer leaf i) is the input value at (outer leaf i, inner leaf j)', ident, lambda: lv[:10])
        # outer-shaped subtrees at each inner leaf
        subs = ispec.flatten_up_to(res)
        ok = all(optree.tree_structure(s, **kw) == ospec for s in subs)
        sink.check(ok, 'transpose/subtree-shape', 'each inner leaf holds an outer-shaped tree', ident)
        # involution
        k2, back = outcome(lambda: optree.tree_transpose(ispec, ospec, res, is_leaf=o.is_leaf))
        d = same.diff(tree, back) if k2 == 'ok' else repr(back)
        sink.check(k2 == 'ok' and d is None, 'transpose/involution', 'transposing back returns the original tree', ident, d)
        # a second pair that is EQUAL as treespecs (sorted mode ignores insertion order) but whose dicts were filled in another order: the result
        # must carry the key order of the treespecs of THIS call (and the involution must give this tree back), whatever was transposed before
        if o.pred == 'none' and any(nd.k in gen.DICTS and len(nd.items) > 1 for d_ in (od, idesc) for nd in d_.walk()):
            od2, id2 = od.copy(), idesc.copy()
            for d_ in (od2, id2):
                for nd in d_.walk():
                    if nd.k in gen.DICTS and len(nd.items) > 1:
                        rng.shuffle(nd.items)
            ot2, _ = gen.materialize(od2, rng)
            it2, _ = gen.materialize(id2, rng)
            os2, is2 = optree.tree_structure(ot2, **kw), optree.tree_structure(it2, **kw)
            if os2.num_leaves == m and is2.num_leaves == n:
                grid2 = [[U.Leaf(('t', i, j)) for j in range(n)] for i in range(m)]
                tree2 = os2.unflatten([is2.unflatten(grid2[i]) for i in range(m)])
                k9, res2 = outcome(lambda: optree.tree_transpose(os2, is2, tree2, is_leaf=o.is_leaf))
                want2 = is2.unflatten([os2.unflatten([grid2[i][j] for i in range(m)]) for j in range(n)]) if k9 == 'ok' else None
                d9 = same.diff(want2, res2) if k9 == 'ok' else repr(res2)[:200]
                sink.check(k9 == 'ok' and d9 is None, 'transpose/reordered-twin', 'the transposed tree has the node types, metadata and KEY ORDER of the treespecs passed to this call', ident, d9)
                k10, back2 = outcome(lambda: optree.tree_transpose(is2, os2, res2, is_leaf=o.is_leaf)) if k9 == 'ok' else ('skipped', None)
                d10 = same.diff(tree2, back2) if k10 == 'ok' else repr(back2)[:200]
                sink.check(k10 in ('ok', 'skipped') and (k10 == 'skipped' or d10 is None), 'transpose/reordered-twin-involution', 'transposing back returns the original tree', ident, d10)
                sink.count('reordered-twin-transposes')
        # rejections
        other_nil = optree.tree_structure(itree0, is_leaf=o.is_leaf, none_is_leaf=not o.none_is_leaf, namespace=o.namespace)
        if other_nil.num_leaves:
            k3, v3 = outcome(lambda: optree.tree_transpose(ospec, other_nil, tree, is_leaf=o.is_leaf))
            sink.check(k3 not in NOT_A_REJECTION, 'reject/none_is_leaf-mismatch', 'mismatching none_is_leaf raises', ident, lambda: (k3, repr(v3)[:200]))
        if ospec.namespace and rng.random() < 0.5:
            foreign = optree.tree_structure(U.CNs([1]), namespace=U.NS) if ospec.namespace != U.NS else None
            if foreign is None:
                with optree.dict_insertion_ordered(True, namespace=U.NS_OTHER):
                    foreign = optree.tree_structure({'a': 1}, namespace=U.NS_OTHER)
            if foreign.namespace and foreign.namespace != ospec.namespace and foreign.none_is_leaf == ospec.none_is_leaf:
                k4, v4 = outcome(lambda: optree.tree_transpose(ospec, foreign, tree, is_leaf=o.is_leaf))
                sink.check(k4 not in NOT_A_REJECTION, 'reject/namespace-mismatch', 'mismatching namespaces raise', ident, lambda: (k4, repr(v4)[:200]))
                sink.count('rejections:namespace')
        if m >= 1:
            short_tree = ospec.unflatten([ispec.unflatten(grid[i]) for i in range(m - 1)] + [U.Leaf('x')])
            if n > 1:
                k5, v5 = outcome(lambda: optree.tree_transpose(ospec, ispec, short_tree, is_leaf=o.is_leaf))
                sink.check(k5 not in NOT_A_REJECTION, 'reject/leaf-count', 'a wrong leaf count raises', ident, lambda: (k5, repr(v5)[:200]))
                sink.count('rejections:leaf-count')
            # every wrong total: one inner tree (at any outer position) replaced by a tuple of n+k leaves, k in [-n, n+1] \ {0}
            for k in [k for k in range(-n, n + 2) if k != 0][:: max(1, n // 3)]:
                at = rng.randrange(m)
                wrong = ospec.unflatten([tuple(U.Leaf(('w', i, j)) for j in range(n + k)) if i == at else ispec.unflatten(grid[i]) for i in range(m)])
                k5, v5 = outcome(lambda: optree.tree_transpose(ospec, ispec, wrong, is_leaf=o.is_leaf))
                sink.check(k5 not in NOT_A_REJECTION, 'reject/leaf-count/' + ('surplus' if k > 0 else 'deficit'), 'a wrong leaf count raises', dict(ident, surplus=k, at=at, m=m, n=n),
                           lambda: (k5, repr(v5)[:200]))
                sink.count('rejections:leaf-count:' + ('surplus<n' if 0 < k < n else 'surplus>=n' if k >= n else 'deficit'))
        # ---- tree_transpose_map family
        cache = {}

        def f(x, *rest):
            # the result depends on EVERY argument (by identity): a rest leaf routed to the wrong call shows up as other result leaves
            key = (id(x), *map(id, rest))
            if key not in cache:
                cache[key] = [U.Leaf(('f', len(cache), j)) for j in range(n)]
            return ispec.unflatten(cache[key])

        variants = [('tree_transpose_map', optree.tree_transpose_map, optree.tree_map, None),
                    ('tree_transpose_map_with_path', optree.tree_transpose_map_with_path, optree.tree_map_with_path, 'path'),
                    ('tree_transpose_map_with_accessor', optree.tree_transpose_map_with_accessor, optree.tree_map_with_accessor, 'accessor')]
        name, tfn, mfn, first = variants[(idx // 30) % 3]  # independent of the outer / inner profile rotation
        firsts = []

        def g(*args):
            if first:
                firsts.append(args[0])
                return f(*args[1:])
            return f(*args)

        n_rests = rng.choice([0, 0, 1, 2, 2, 3])
        rests = [ospec.unflatten([U.Leaf(('rest', r, i)) for i in range(m)]) for r in range(n_rests)]  # distinct trees with distinct leaves
        given = ispec if rng.random() < 0.5 else None
        k6, tm = outcome(lambda: tfn(g, otree, *rests, inner_treespec=given, **kw))
        sink.check(k6 == 'ok', f'{name}/raises', f'{name} succeeds for a fixed inner shape', ident, lambda: repr(tm)[:300])
        if k6 == 'ok':
            mapped = mfn(g, otree, *rests, **kw)
            want = optree.tree_transpose(ospec, ispec, mapped, is_leaf=o.is_leaf)
            d = same.diff(want, tm)
            sink.check(d is None, f'{name}/equals-transposed-map', f'{name} equals transposing the mapped tree', ident, d)
            if first:
                paths = refmodel.paths(oref.shape)
                got = firsts[:m]
                okp = len(got) == m and all((type(a) is tuple if first == 'path' else isinstance(a, optree.PyTreeAccessor)) and len(a if first == 'path' else a.path) == len(p)
                                             and all(_eq(x, y) for x, y in zip(a if first == 'path' else a.path, p)) for a, p in zip(got, paths))
                sink.check(okp, f'{name}/first-argument', f'{name} passes the path/accessor first', ident, lambda: (got, paths))
            sink.count(f'transpose-maps:{name}')
            sink.cell('variant-profile', name, po, given is not None, len(rests))
            sink.count(f'transpose-maps-with-rests:{len(rests)}')
        # deviating inner shape: one result is not a suffix of the inner structure -> ValueError (any variant, any position; with a given
        # inner structure also the first result)
        if m >= 2 and ispec.num_nodes > 1:
            dname, dfn, _, dfirst = rng.choice(variants)
            dgiven = ispec if rng.random() < 0.5 else None
            pos = rng.randrange(1 if dgiven is not None else 2, m + 1)
            calls = [0]

            def h(*args):
                calls[0] += 1
                if calls[0] == pos:
                    return U.Leaf('deviant')
                return f(args[1] if dfirst else args[0])

            k7, v7 = outcome(lambda: dfn(h, otree, inner_treespec=dgiven, **kw))
            sink.check(k7 not in NOT_A_REJECTION, 'transpose_map/deviating-result', 'a result that does not match the inner structure raises', dict(ident, variant=dname, position=pos, given=dgiven is not None),
                       lambda: (k7, repr(v7)[:200]))
            sink.count('deviating-results')
            sink.cell('deviant', dname, 'first' if pos == 1 else 'last' if pos == m else 'middle', dgiven is not None)
        # results that match the inner structure without being laid out like it (keys in another order, another standard dict kind): they are
        # matched against the inner structure BY KEY, whichever variant and whether the inner structure was given or taken from the first result
        if o.pred == 'none' and any(nd.k in gen.DICTS and len(nd.items) > 1 for nd in idesc.walk()):
            vname, vfn, _, vfirst = rng.choice(variants)
            vgiven = ispec if rng.random() < 0.5 else None
            cells_v = {}
            calls_v = [0]

            def hv(*args):
                i = calls_v[0]
                calls_v[0] += 1
                row = cells_v.setdefault(i, [U.Leaf(('v', i, j)) for j in range(n)])
                res = ispec.unflatten(row)
                return res if (i == 0 and vgiven is None) else neutral_variant(res, rng)

            k11, v11 = outcome(lambda: vfn(hv, otree, inner_treespec=vgiven, **kw))
            want11 = ispec.unflatten([ospec.unflatten([cells_v[i][j] for i in range(m)]) for j in range(n)]) if k11 == 'ok' and len(cells_v) == m else None
            d11 = same.diff(want11, v11) if want11 is not None else (k11, repr(v11)[:200])
            sink.check(k11 == 'ok' and d11 is None, 'transpose_map/results-matched-by-key', 'a result that matches the inner structure with its keys in another order / another dict kind is matched by key', dict(ident, variant=vname, given=vgiven is not None), d11)
            sink.count('results-in-another-layout')
        # the inner structure is the one of the FIRST result: later results that are deeper are cut at it; a first result that is deeper
        # than a later one makes the later one a mismatch
        if m >= 2 and o.pred == 'none':
            deep_at = rng.randrange(n)
            cells = {}

            def cell(i, j, deep):
                if (i, j) not in cells:
                    cells[i, j] = [U.Leaf(('d', i, j, 0)), (U.Leaf(('d', i, j, 1)),)] if deep else U.Leaf(('s', i, j))
                return cells[i, j]

            for first_deep in (False, True):
                cells.clear()
                calls = [0]

                def h2(x, *rest):
                    i = calls[0]
                    calls[0] += 1
                    deep = (i == 0) == first_deep
                    return ispec.unflatten([cell(i, j, deep and j == deep_at) for j in range(n)])

                k8, v8 = outcome(lambda: optree.tree_transpose_map(h2, otree, **kw))
                if first_deep:
                    sink.check(k8 not in NOT_A_REJECTION, 'transpose_map/first-result-defines/later-shallower', 'a later result that lacks a node of the first result raises', ident, lambda: (k8, repr(v8)[:200]))
                else:
                    want = ispec.unflatten([ospec.unflatten([cells[i, j] for i in range(m)]) for j in range(n)]) if k8 == 'ok' else None
                    d8 = same.diff(want, v8) if k8 == 'ok' else repr(v8)[:200]
                    sink.check(k8 == 'ok' and d8 is None, 'transpose_map/first-result-defines/later-deeper', 'the inner structure is taken from the first result; deeper later results are cut at it', ident, d8)
                sink.count('first-result-defines')
    sink.cell('opt', o.none_is_leaf, o.namespace or 'global', o.pred, o.dict_mode)
    sink.cell('mn', min(m, 6), min(n, 6))
    sink.case(harness.fp(od.short(), idesc.short(), o.key()), m * n >= 4 and oref.shape.internal_nodes() >= 1 and iref.shape.internal_nodes() >= 1, dict(ident, m=m, n=n))


def run_shard(sink, tier, seed, shard):
    n = harness.scale(30000, 400000, tier)
    i0, step = (shard or {}).get('i', 0), (shard or {}).get('n', 1)
    for idx in range(i0, n, step):
        sink.guard('harness', 'case', dict(index=idx), lambda: check_case(sink, seed, idx))


def finalize(sink, tier, seed):
    sink.require('oracle:value at (inner leaf j, outer leaf i) is the input value at (outer leaf i, inner leaf j)', 100)
    sink.require('rejections:empty')
    sink.require('rejections:leaf-count')
    for c in ('surplus<n', 'surplus>=n', 'deficit'):
        sink.require('rejections:leaf-count:' + c, 50)
    sink.require('rejections:namespace')
    sink.require('deviating-results')
    sink.require('first-result-defines', 100)
    sink.require('reordered-twin-transposes', 100)
    sink.require('results-in-another-layout', 100)
    for r in (0, 1, 2, 3):
        sink.require(f'transpose-maps-with-rests:{r}', 50)
    for v in ('tree_transpose_map', 'tree_transpose_map_with_path', 'tree_transpose_map_with_accessor'):
        sink.require(f'transpose-maps:{v}')
