"""C07 - prefix matching is exact and its three implementations agree."""
from __future__ import annotations

import optree

from vf import gen, harness, refmodel
from vf import universe as U

LEVEL = 'exploration'
RULE = (
    'pairs (prefix tree P, full tree F): F = P with leaves substituted by subtrees (true suffix), F after neutral edits (dict kind / key '
    'order / factory / deque maxlen; nested dicts with unequal sibling sizes), F after exactly one breaking edit, unrelated; chains '
    't0<=t1<=t2 for transitivity; x option grid. Four-way agreement: reference is_prefix, spec.flatten_up_to(F), spec.is_prefix(structure(F)), '
    'prefix_errors(P,F)==[]. distinct = distinct (P, F, options); non-trivial = P has >= 2 internal nodes'
)
ASSUMPTIONS = [
    'predicates used are type/arity based, so they classify corresponding nodes of P and F alike (identity-based predicates are not generated)',
    'the partition clause is checked as a multiset when dict key orders differ between P and F, as a sequence otherwise',
]


def shards(tier, seed):
    n = 8 if tier == 'quick' else 16
    return [dict(i=i, n=n) for i in range(n)]


RELS = ('suffix', 'suffix+neutral', 'neutral', 'break', 'break-after-suffix', 'unrelated', 'suffix+neutral', 'equal')


def outcome(f):
    try:
        return 'ok', f()
    except ValueError as e:
        return 'ValueError', e
    except Exception as e:  # noqa: BLE001
        return type(e).__name__, e


def equiv(a, b):
    """Shapes equal up to dict kind / key order / factory / maxlen."""
    if a.kind == 'leaf' or b.kind == 'leaf':
        return a.kind == b.kind
    ok, perm = refmodel.node_matches(a, b)
    if not ok:
        return False
    return all(equiv(ca, b.children[j]) for ca, j in zip(a.children, perm))


def has_reorder(a, b):
    if a.kind == 'leaf' or b.kind == 'leaf' or a.kind == 'none':
        return False
    ok, perm = refmodel.node_matches(a, b)
    if not ok:
        return False
    if perm != list(range(len(perm))):
        return True
    return any(has_reorder(ca, b.children[j]) for ca, j in zip(a.children, perm))


def nested_reorder_depth(a, b, depth=0):
    """max number of nested reordered dict levels along a path (the hostile stratum)."""
    if a.kind == 'leaf' or b.kind == 'leaf' or a.kind == 'none':
        return depth
    ok, perm = refmodel.node_matches(a, b)
    if not ok:
        return depth
    d = depth + (1 if perm != list(range(len(perm))) else 0)
    return max([nested_reorder_depth(ca, b.children[j], d) for ca, j in zip(a.children, perm)] + [d])


def check_pair(sink, seed, idx):  # noqa: C901
    rng = gen.case_rng(seed, 'c07', idx)
    rel = RELS[idx % len(RELS)]
    profile = ['dicts', 'mixed', 'dicts', 'custom', 'plain', 'seq', 'dicts', 'none'][(idx // len(RELS)) % 8]
    dp, _ = gen.gen_desc(rng, profile, 12)
    if rel == 'suffix':
        df, _ = gen.substitute_leaves(dp, rng, 0.5, 'dicts' if idx % 3 == 0 else 'plain', 6)
    elif rel == 'suffix+neutral':
        df, _ = gen.substitute_leaves(dp, rng, 0.5, 'dicts', 6)
        df, _ = gen.neutral_edit(df, rng)
    elif rel == 'neutral':
        df, _ = gen.neutral_edit(dp, rng)
    elif rel == 'break':
        df, edit = gen.breaking_edit(dp, rng)
        df = df or dp.copy()
        sink.count(f'break-edit:{edit}')
    elif rel == 'break-after-suffix':
        df, _ = gen.substitute_leaves(dp, rng, 0.4, 'plain', 5)
        d2, _ = gen.breaking_edit(df, rng)
        df = d2 or df
    elif rel == 'equal':
        df = dp.copy()
    else:
        df, _ = gen.gen_desc(rng, profile, 12)
    P, _ = gen.materialize(dp, rng)
    F, _ = gen.materialize(df, rng)
    o = gen.rand_opt(rng, preds=('none', 'none', 'none', 'is_list', 'pair', 'dictish', 'custom', 'isNone'))
    ident = dict(gen='c07', seed=seed, index=idx, relation=rel, P=dp.short()[:300], F=df.short()[:300], opt=repr(o))
    kw = o.kw()
    with o.ctx():
        rp = refmodel.flatten(P, o.ref())
        rf = refmodel.flatten(F, o.ref())
        rf_full = refmodel.flatten(F, refmodel.Opts(o.none_is_leaf, o.namespace, None, o.insertion))
        want = refmodel.is_prefix(rp.shape, rf.shape)
        want_full = refmodel.is_prefix(rp.shape, rf_full.shape)
        if want != want_full:
            sink.count('skipped:predicate-makes-references-disagree')
            return
        reorder = want and has_reorder(rp.shape, rf_full.shape)
        depth = nested_reorder_depth(rp.shape, rf_full.shape) if want else 0
        mech = ('reorder-nested' if depth >= 2 else 'reorder' if reorder else 'plain') if want else 'mismatch'
        sp, sf = optree.tree_structure(P, **kw), optree.tree_structure(F, **kw)
        # 1. flatten_up_to
        k1, v1 = outcome(lambda: sp.flatten_up_to(F))
        sink.check(k1 in ('ok', 'ValueError'), f'flatten_up_to/exception-type/{k1}/{mech}', 'flatten_up_to raises only ValueError', ident, lambda: repr(v1))
        sink.check((k1 == 'ok') == want, f'flatten_up_to/verdict/{mech}', 'flatten_up_to succeeds exactly when P is a prefix of F', ident, lambda: dict(got=k1, want=want, err=repr(v1)[:300]))
        # 2. is_prefix (spec vs spec)
        k2, v2 = outcome(lambda: sp.is_prefix(sf))
        sink.check(k2 == 'ok', f'is_prefix/exception/{k2}/{mech}', 'is_prefix never raises', ident, lambda: repr(v2)[:400])
        if k2 == 'ok':
            sink.check(v2 == want, f'is_prefix/verdict/{mech}', 'is_prefix agrees with the reference', ident, lambda: dict(got=v2, want=want, sp=str(sp), sf=str(sf)))
        # 3. prefix_errors
        k3, v3 = outcome(lambda: optree.prefix_errors(P, F, **kw))
        sink.check(k3 == 'ok', f'prefix_errors/exception/{k3}/{mech}', 'prefix_errors never raises', ident, lambda: repr(v3)[:400])
        if k3 == 'ok':
            sink.check((v3 == []) == want, f'prefix_errors/verdict/{mech}', 'prefix_errors is empty exactly when P is a prefix of F', ident, lambda: dict(n=len(v3), want=want))
            for mk in v3[:3]:
                e = mk('name')
                sink.check(isinstance(e, ValueError), 'prefix_errors/error-type', 'prefix_errors yields ValueError factories', ident)
        # 4. operators are converses
        if k2 == 'ok':
            ops = outcome(lambda: (sp <= sf, sf >= sp, sf.is_suffix(sp), optree.treespec_is_prefix(sp, sf), optree.treespec_is_suffix(sf, sp)))
            sink.check(ops[0] == 'ok' and all(x == v2 for x in ops[1]), 'converses', '<=, >=, is_suffix are converses of is_prefix', ident, lambda: repr(ops))
            strict_want = want and refmodel.strictly_more(rp.shape, rf.shape)
            st = outcome(lambda: (sp < sf, sf > sp, sp.is_prefix(sf, strict=True), sf.is_suffix(sp, strict=True)))
            sink.check(st[0] == 'ok' and all(x == strict_want for x in st[1]), f'strict/{mech}', 'a < b iff a <= b and b has a non-leaf node where a has a leaf', ident, lambda: dict(got=repr(st), want=strict_want))
        # 5. on success: the returned subtrees
        if k1 == 'ok' and want:
            exp = refmodel.subtrees_up_to(rp.shape, F, rf_full.shape, refmodel.child_object)
            sink.check(len(v1) == len(exp) and all(a is b for a, b in zip(v1, exp)), f'subtrees/{mech}', 'flatten_up_to returns the subtree at each leaf path, in the treespec leaf order', ident,
                       lambda: dict(got=v1, want=exp))
            sink.check(len(v1) == sp.num_leaves, 'subtrees/count', 'one subtree per treespec leaf', ident)
            part = []
            for sub in v1:
                part.extend(optree.tree_leaves(sub, **kw))
            fl = optree.tree_leaves(F, **kw)
            if reorder:
                ok = sorted(map(id, part)) == sorted(map(id, fl))
            else:
                ok = list(map(id, part)) == list(map(id, fl))
            sink.check(ok, f'partition/{mech}', 'the returned subtrees partition the leaves of F', ident, lambda: (part, fl))
        # 6. reflexivity, antisymmetry
        r = outcome(lambda: (sp.is_prefix(sp), sp <= sp, sp >= sp, not (sp < sp), not (sp > sp), sp.flatten_up_to(P) is not None, optree.prefix_errors(P, P, **kw) == []))
        sink.check(r[0] == 'ok' and all(r[1]), 'reflexive', 'the prefix relation is reflexive', ident, lambda: repr(r))
        if k2 == 'ok' and v2:
            back = outcome(lambda: sf.is_prefix(sp))
            if back[0] == 'ok' and back[1]:
                sink.check(equiv(rp.shape, rf.shape), 'antisymmetric', 'a<=b and b<=a imply equality up to dict kind/order/factory/maxlen', ident)
                sink.count('both-ways')
    sink.cell('rel', rel, 'prefix' if want else 'not-prefix')
    sink.cell('mechanism', mech)
    sink.cell('opt', o.none_is_leaf, o.namespace or 'global', o.dict_mode)
    sink.case(harness.fp(dp.short(), df.short(), o.key()), rp.shape.internal_nodes() >= 2, dict(ident, prefix=want, mechanism=mech))


def chain_case(sink, seed, idx):
    rng = gen.case_rng(seed, 'c07chain', idx)
    d0, _ = gen.gen_desc(rng, rng.choice(['dicts', 'plain', 'mixed']), 8)
    d1, _ = gen.substitute_leaves(d0, rng, 0.5, 'dicts', 4)
    d1, _ = gen.neutral_edit(d1, rng)
    d2, _ = gen.substitute_leaves(d1, rng, 0.5, 'plain', 4)
    d2, _ = gen.neutral_edit(d2, rng)
    o = gen.rand_opt(rng, preds=('none',))
    ts = [gen.materialize(d, rng)[0] for d in (d0, d1, d2)]
    ident = dict(gen='c07chain', seed=seed, index=idx, t0=d0.short()[:200], t1=d1.short()[:200], t2=d2.short()[:200], opt=repr(o))
    with o.ctx():
        shapes = [refmodel.flatten(t, o.ref()).shape for t in ts]
        if not (refmodel.is_prefix(shapes[0], shapes[1]) and refmodel.is_prefix(shapes[1], shapes[2])):
            sink.count('skipped:chain-not-a-chain-under-options')
            return
        specs = [optree.tree_structure(t, **o.kw()) for t in ts]
        r = outcome(lambda: (specs[0] <= specs[1], specs[1] <= specs[2], specs[0] <= specs[2]))
        sink.check(r[0] == 'ok' and all(r[1]), 'transitive', 't0<=t1 and t1<=t2 imply t0<=t2', ident, lambda: repr(r))
        r = outcome(lambda: specs[0].flatten_up_to(ts[2]))
        sink.check(r[0] == 'ok', 'transitive/flatten_up_to', 'flatten_up_to follows the chain', ident, lambda: repr(r[1])[:300])
    sink.count('chains')
    sink.case(harness.fp('chain', d0.short(), d1.short(), d2.short(), o.key()), shapes[0].internal_nodes() >= 1, ident)


def run_shard(sink, tier, seed, shard):
    n = harness.scale(40000, 600000, tier)
    nc = harness.scale(6000, 100000, tier)
    i0, step = (shard or {}).get('i', 0), (shard or {}).get('n', 1)
    for idx in range(i0, n, step):
        with harness.reentrant(idx % 8 == 0):  # an eighth of the cases with callbacks that call back into optree
            sink.guard('harness', 'pair', dict(index=idx), lambda: check_pair(sink, seed, idx))
        if idx % 8 == 0:
            sink.count('cases-with-re-entrant-callbacks')
    for idx in range(i0, nc, step):
        sink.guard('harness', 'chain', dict(index=idx), lambda: chain_case(sink, seed, idx))


def finalize(sink, tier, seed):
    for e in gen.BREAK_EDITS:
        if e != 'leaf2none':
            sink.require(f'break-edit:{e}', 20)
    for c in ('mechanism/plain', 'mechanism/reorder', 'mechanism/reorder-nested', 'mechanism/mismatch'):
        sink.counters[f'cell:{c}'] = sink.cells.get(c, 0)
        sink.require(f'cell:{c}', 5)
    sink.require('chains')
    sink.require('both-ways')
