"""C09 - broadcasting replicates prefix leaves onto the matching positions."""
from __future__ import annotations

import optree

from vf import gen, harness, refmodel, specview
from vf import universe as U

LEVEL = 'exploration'
RULE = (
    'pairs and triples of trees derived from a common base by independent leaf substitutions (related / partially overlapping), neutral '
    'edits (dict kind, key order, factory, maxlen), one breaking edit (conflicting) or unrelated; all node kinds incl. custom nodes with '
    'explicit entries; x option grid. Oracles: reference least-upper-bound on shapes, leaf replication checked per result path, '
    'commutativity / idempotence / absorption, tree_broadcast_map* vs recorded calls. distinct = distinct (descriptions, options); '
    'non-trivial = first tree has >= 2 internal nodes'
)
ASSUMPTIONS = [
    'the reference LUB keeps the first operand\'s node data where both operands have a node (as the documentation of broadcast_to_common_suffix describes)',
    'results are compared per leaf path, so differing dict key orders between operands do not matter to the oracle',
]


def shards(tier, seed):
    n = 8 if tier == 'quick' else 16
    return [dict(i=i, n=n) for i in range(n)]


def _eq(a, b):
    return a is b or (type(a) is type(b) and a == b)


def _key_eq(a, b):
    # positions in DIFFERENT trees are matched the way dict lookup matches keys: 6 and 6.0 are the same key
    try:
        return a is b or bool(a == b)
    except Exception:  # noqa: BLE001
        return False


def _is_path_prefix(p, q):
    return len(p) <= len(q) and all(_key_eq(x, y) for x, y in zip(p, q))


def outcome(f):
    try:
        return 'ok', f()
    except ValueError as e:
        return 'ValueError', e
    except Exception as e:  # noqa: BLE001
        return type(e).__name__, e


def equiv(a, b):
    if a.kind == 'leaf' or b.kind == 'leaf':
        return a.kind == b.kind
    ok, perm = refmodel.node_matches(a, b)
    return ok and all(equiv(ca, b.children[j]) for ca, j in zip(a.children, perm))


def ref_lub(shapes):
    out = shapes[0]
    for s in shapes[1:]:
        out = refmodel.lub(out, s)
    return out


def replicated_ok(result_tree, src_tree, o):
    """Every leaf of result_tree equals the unique leaf of src_tree whose path prefixes its path."""
    kw = o.kw()
    rp, rl, _ = optree.tree_flatten_with_path(result_tree, **kw)
    sp, sl, _ = optree.tree_flatten_with_path(src_tree, **kw)
    for q, v in zip(rp, rl):
        owners = [i for i, p in enumerate(sp) if _is_path_prefix(p, q)]
        if len(owners) != 1 or sl[owners[0]] is not v:
            return False, dict(path=q, value=v, owners=owners)
    return True, None


def make_family(rng, idx, n):
    profile = ['mixed', 'dicts', 'custom', 'plain', 'seq', 'none', 'custom'][idx % 7]
    base, _ = gen.gen_desc(rng, profile, 10)
    rel = ['related', 'related', 'overlap', 'neutral', 'conflict', 'unrelated', 'prefix', 'near-prefix'][(idx // 7) % 8]
    descs = []
    for k in range(n):
        if rel == 'related':
            d, _ = gen.substitute_leaves(base, rng, 0.3, 'plain', 4)
        elif rel == 'overlap':
            d, _ = gen.substitute_leaves(base, rng, 0.6, rng.choice(['plain', 'custom', 'dicts']), 4)
        elif rel == 'neutral':
            d, _ = gen.substitute_leaves(base, rng, 0.3, 'plain', 4)
            d, _ = gen.neutral_edit(d, rng)
        elif rel == 'conflict':
            d, _ = gen.substitute_leaves(base, rng, 0.2, 'plain', 4)
            if k == n - 1:
                d2, _ = gen.breaking_edit(d, rng)
                d = d2 or d
        elif rel == 'prefix':
            d = base.copy() if k == 0 else gen.substitute_leaves(base, rng, 0.5, 'plain', 4)[0]
        elif rel == 'near-prefix':
            # the first tree would be a prefix of the others - but for ONE breaking edit (an extra / missing child, another key, other metadata,
            # another node type) somewhere in them: broadcasting the prefix must raise ValueError
            d = base.copy() if k == 0 else gen.substitute_leaves(base, rng, 0.5, 'plain', 4)[0]
            if k > 0:
                d2, _ = gen.breaking_edit(d, rng)
                d = d2 or d
        else:
            d, _ = gen.gen_desc(rng, profile, 8)
        descs.append(d)
    return rel, descs


def check_case(sink, seed, idx):  # noqa: C901
    rng = gen.case_rng(seed, 'c09', idx)
    n = 2 if idx % 3 else 3
    rel, descs = make_family(rng, idx, n)
    trees = [gen.materialize(d, rng)[0] for d in descs]
    o = gen.rand_opt(rng, preds=('none', 'none', 'none', 'is_list', 'custom', 'isNone'))
    kw = o.kw()
    ident = dict(gen='c09', seed=seed, index=idx, relation=rel, trees=[d.short()[:200] for d in descs], opt=repr(o))
    with o.ctx():
        refs = [refmodel.flatten(t, o.ref()) for t in trees]
        shapes = [r.shape for r in refs]
        specs = [optree.tree_structure(t, **kw) for t in trees]
        nss = [refmodel.expected_namespace(r, o.ref(), o.ins_in_current_ns) for r in refs]
        a, b = specs[0], specs[1]
        # ---- spec level LUB
        try:
            want = refmodel.lub(shapes[0], shapes[1])
            want_ba = refmodel.lub(shapes[1], shapes[0])
        except ValueError:
            want = want_ba = None
        k, got = outcome(lambda: a.broadcast_to_common_suffix(b))
        kb, got_ba = outcome(lambda: b.broadcast_to_common_suffix(a))
        sink.check(k in ('ok', 'ValueError') and kb in ('ok', 'ValueError'), f'lub/exception-type/{k}', 'broadcast_to_common_suffix raises only ValueError', ident, lambda: (repr(got), repr(got_ba)))
        sink.check((k == 'ok') == (want is not None), 'lub/verdict', 'broadcast_to_common_suffix succeeds exactly when the trees do not conflict', ident, lambda: dict(got=k, err=repr(got)[:300], conflict=want is None))
        sink.check((kb == 'ok') == (k == 'ok'), 'lub/verdict-symmetric', 'success is independent of argument order', ident)
        if k == 'ok' and want is not None:
            d = specview.match(got, want)
            has_entries = any(s.kind == 'custom' and s.entries != tuple(range(len(s.entries))) for s in _walk(want))
            sink.check(d is None, 'lub/vs-reference/' + ('custom-entries' if has_entries else 'plain'),
                       'the common suffix is the least upper bound, with the first operand\'s node types, key order and custom path entries', ident,
                       lambda: dict(diff=d, got=repr(got)))
            sink.check(a.is_prefix(got) and b.is_prefix(got), 'lub/upper-bound', 'both operands are prefixes of the result', ident)
            exp_paths = refmodel.paths(want)
            gp = got.paths()
            sink.check(len(gp) == len(exp_paths) and all(len(x) == len(y) and all(_eq(p, q) for p, q in zip(x, y)) for x, y in zip(gp, exp_paths)),
                       'lub/paths/' + ('custom-entries' if has_entries else 'plain'), 'paths() of the result keep each operand\'s own entries', ident, lambda: (gp, exp_paths))
            ka, accs = outcome(lambda: got.accessors())
            sink.check(ka == 'ok' and all(len(x.path) == len(y) and all(_eq(p, q) for p, q in zip(x.path, y)) for x, y in zip(accs, exp_paths)), 'lub/accessors', 'accessors() of the result follow the same entries', ident)
            if kb == 'ok':
                d = specview.match(got_ba, want_ba)
                sink.check(d is None, 'lub/vs-reference-swapped', 'swapped operands: result carries the other operand\'s node data', ident, d)
                sink.check(got.is_prefix(got_ba) and got_ba.is_prefix(got), 'lub/commutative', 'the result is independent of argument order up to dict kind/order', ident, lambda: (repr(got), repr(got_ba)))
            # idempotent
            sink.check(a.broadcast_to_common_suffix(a) == a and got.broadcast_to_common_suffix(got) == got, 'lub/idempotent', 'broadcasting with itself is the identity', ident)
            # absorption
            if refmodel.is_prefix(shapes[0], shapes[1]):
                sink.check(got.is_prefix(b) and b.is_prefix(got), 'lub/absorbs-prefix', 'a <= b implies broadcast(a, b) equals b up to dict kind/order', ident, lambda: (repr(got), repr(b)))
                sink.count('absorption-cases')
        # ---- tree level: tree_broadcast_common / broadcast_common
        kt, pair = outcome(lambda: optree.tree_broadcast_common(trees[0], trees[1], **kw))
        sink.check((kt == 'ok') == (want is not None) and kt in ('ok', 'ValueError'), 'tree_common/verdict', 'tree_broadcast_common succeeds exactly when the trees do not conflict', ident, lambda: (kt, repr(pair)[:300]))
        if kt == 'ok' and want is not None:
            b0, b1 = pair
            s0, s1 = optree.tree_structure(b0, **kw), optree.tree_structure(b1, **kw)
            d0, d1 = specview.match(s0, want), specview.match(s1, want_ba)
            sink.check(d0 is None and d1 is None, 'tree_common/structure', 'each broadcast tree has the common-suffix structure with its own node types and key order', ident, lambda: (d0, d1))
            ok0, w0 = replicated_ok(b0, trees[0], o)
            ok1, w1 = replicated_ok(b1, trees[1], o)
            sink.check(ok0 and ok1, 'tree_common/replication', 'leaves are replicated from the unique leaf whose path is a prefix', ident, lambda: (w0, w1))
            kl, lists = outcome(lambda: optree.broadcast_common(trees[0], trees[1], **kw))
            l0 = optree.tree_leaves(b0, **kw)
            sink.check(kl == 'ok' and [id(x) for x in lists[0]] == [id(x) for x in l0] and len(lists[1]) == len(l0), 'broadcast_common/leaves', 'broadcast_common returns the leaves of tree_broadcast_common', ident)
        # ---- prefix broadcast
        is_pre = refmodel.is_prefix(shapes[0], refmodel.flatten(trees[1], refmodel.Opts(o.none_is_leaf, o.namespace, None, o.insertion)).shape) and refmodel.is_prefix(shapes[0], shapes[1])
        kp, bp = outcome(lambda: optree.tree_broadcast_prefix(trees[0], trees[1], **kw))
        if refmodel.is_prefix(shapes[0], shapes[1]) == is_pre:
            sink.check((kp == 'ok') == is_pre and kp in ('ok', 'ValueError'), 'prefix/verdict', 'tree_broadcast_prefix succeeds exactly when the first tree is a prefix', ident, lambda: (kp, repr(bp)[:300], is_pre))
            if kp == 'ok' and is_pre:
                sp = optree.tree_structure(bp, **kw)
                sink.check(sp.is_prefix(specs[1]) and specs[1].is_prefix(sp), 'prefix/structure', 'the result has the structure of the full tree', ident, lambda: (repr(sp), repr(specs[1])))
                okr, w = replicated_ok(bp, trees[0], o)
                sink.check(okr, 'prefix/replication', 'every leaf equals the unique prefix leaf whose path is a prefix of its path', ident, lambda: w)
                kl, lst = outcome(lambda: optree.broadcast_prefix(trees[0], trees[1], **kw))
                sink.check(kl == 'ok' and [id(x) for x in lst] == [id(x) for x in optree.tree_leaves(bp, **kw)], 'prefix/list', 'broadcast_prefix returns exactly that tree\'s leaves', ident)
                sink.count('prefix-broadcasts')
        # ---- broadcast map over n trees
        try:
            want_all = ref_lub(shapes)
        except ValueError:
            want_all = None
        calls = []

        def f(*args):
            calls.append(args)
            return U.Leaf(('m', len(calls)))

        variant = ['tree_broadcast_map', 'tree_broadcast_map_with_path', 'tree_broadcast_map_with_accessor'][(idx // 3) % 3]
        km, res = outcome(lambda: getattr(optree, variant)(f, *trees, **kw))
        sink.check((km == 'ok') == (want_all is not None) and km in ('ok', 'ValueError'), f'map/verdict/n={n}', f'{variant} succeeds exactly when all trees have a common suffix', ident, lambda: (km, repr(res)[:300], want_all is not None))
        if km == 'ok' and want_all is not None:
            exp_paths = refmodel.paths(want_all)
            sink.check(len(calls) == len(exp_paths), f'map/call-count/n={n}', 'f is called once per leaf of the common suffix', ident, lambda: (len(calls), len(exp_paths)))
            flat = [optree.tree_flatten_with_path(t, **kw) for t in trees]
            # expected argument tuples per common-suffix path
            exp_by_path = []
            for q in exp_paths:
                args = []
                for (ps, ls, _) in flat:
                    own = [i for i, p in enumerate(ps) if _is_path_prefix(p, q)]
                    args.append(ls[own[0]] if len(own) == 1 else None)
                exp_by_path.append((q, args))
            if variant == 'tree_broadcast_map':
                got_sets = sorted(tuple(id(x) for x in c) for c in calls)
                want_sets = sorted(tuple(id(x) for x in a) for _, a in exp_by_path)
                sink.check(got_sets == want_sets, f'map/arguments/n={n}', 'f receives the leaves of each tree broadcast to the common suffix of all', ident, lambda: (calls[:5], exp_by_path[:5]))
            else:
                okm = True
                wit = None
                for c in calls:
                    first, rest = c[0], c[1:]
                    q = first if variant.endswith('path') else first.path
                    match = [a for p, a in exp_by_path if len(p) == len(q) and all(_eq(x, y) for x, y in zip(p, q))]
                    if len(match) != 1 or [id(x) for x in match[0]] != [id(x) for x in rest]:
                        okm, wit = False, (q, rest, match)
                        break
                sink.check(okm, f'map-with-path/arguments/n={n}', 'the path/accessor variant passes the path and the aligned leaves', ident, lambda: wit)
            sink.count(f'broadcast-maps/n={n}')
    sink.cell('rel', rel, 'ok' if want is not None else 'conflict')
    sink.cell('opt', o.none_is_leaf, o.namespace or 'global', o.pred, o.dict_mode)
    sink.case(harness.fp(tuple(d.short() for d in descs), o.key()), shapes[0].internal_nodes() >= 2, dict(ident, conflict=want is None))


def _walk(sh):
    yield sh
    for c in sh.children:
        yield from _walk(c)


def run_shard(sink, tier, seed, shard):
    n = harness.scale(24000, 400000, tier)
    i0, step = (shard or {}).get('i', 0), (shard or {}).get('n', 1)
    for idx in range(i0, n, step):
        with harness.reentrant(idx % 8 == 0):  # an eighth of the cases with callbacks that call back into optree
            sink.guard('harness', 'case', dict(index=idx), lambda: check_case(sink, seed, idx))
        if idx % 8 == 0:
            sink.count('cases-with-re-entrant-callbacks')


def finalize(sink, tier, seed):
    sink.require('oracle:the common suffix is the least upper bound, with the first operand\'s node types, key order and custom path entries', 100)
    sink.require('absorption-cases')
    sink.require('prefix-broadcasts')
    sink.require('broadcast-maps/n=2')
    sink.require('broadcast-maps/n=3')
