"""C08 - treespec inspection, constructors, transform and compose are consistent."""
from __future__ import annotations

from collections import OrderedDict, defaultdict, deque

import optree

from vf import gen, harness, refmodel, specview
from vf import universe as U

LEVEL = 'exploration'
RULE = (
    'treespecs of C01 trees x option grid: inspection methods against the reference shape at every node (recursively through children()), '
    'child(i)/entry(i) for every i in [-n-2, n+1], one_level(), root rebuilt from its children through transform and through every '
    'treespec_* constructor, transform identities, transform(f_leaf=const s) vs compose(s), compose against the reference composition and '
    'against the structure of an actual a-shaped tree of b-shaped trees, repr against the documented notation for every derived spec. '
    'distinct = distinct (description, options[, inner description]); non-trivial = >= 2 internal nodes'
)
ASSUMPTIONS = [
    'for an outer treespec without leaves the inner treespec is never used, so only == / hash (not the namespace shown in repr) are compared there',
    'the reference shape and renderer (vf.refmodel) transcribe the documentation',
    'compose-vs-actual-tree is evaluated without a predicate (a predicate could classify the substituted subtrees differently)',
]


def shards(tier, seed):
    n = 8 if tier == 'quick' else 16
    return [dict(i=i, n=n) for i in range(n)]


def _eq(a, b):
    return a is b or (type(a) is type(b) and a == b)


def _paths_eq(p, q):
    return len(p) == len(q) and all(len(a) == len(b) and all(_eq(x, y) for x, y in zip(a, b)) for a, b in zip(p, q))


def outcome(f):
    try:
        return 'ok', f()
    except Exception as e:  # noqa: BLE001
        return type(e).__name__, e


def collection_of(sh, children):
    """A python collection of the root kind holding the child treespecs."""
    k = sh.kind
    if k == 'tuple':
        return tuple(children), optree.treespec_tuple, (tuple(children),), {}
    if k == 'list':
        return list(children), optree.treespec_list, (list(children),), {}
    if k == 'dict':
        m = dict(zip(sh.orig_keys, [children[sh.entries.index(key)] if False else None for key in sh.orig_keys]))
        # keep the original insertion order of the source dict
        pos = {id(key): i for i, key in enumerate(sh.entries)}
        m = {key: children[pos[id(key)]] for key in sh.orig_keys}
        return m, optree.treespec_dict, (m,), {}
    if k == 'ordereddict':
        m = OrderedDict(zip(sh.entries, children))
        return m, optree.treespec_ordereddict, (m,), {}
    if k == 'defaultdict':
        pos = {id(key): i for i, key in enumerate(sh.entries)}
        m = defaultdict(sh.meta, {key: children[pos[id(key)]] for key in sh.orig_keys})
        return m, optree.treespec_defaultdict, (sh.meta, dict(m)), {}
    if k == 'deque':
        return deque(children, maxlen=sh.meta), optree.treespec_deque, (list(children),), dict(maxlen=sh.meta)
    if k == 'namedtuple':
        v = sh.type(*children)
        return v, optree.treespec_namedtuple, (v,), {}
    if k == 'structseq':
        v = sh.type(children)
        return v, optree.treespec_structseq, (v,), {}
    if k == 'custom':
        if sh.type is optree.functools.partial:
            return None, None, None, None
        v = sh.reg['unflatten'](sh.meta, children)
        return v, None, None, None
    return None, None, None, None


def check_node(sink, spec, sh, o, ns, ident, depth=0):  # noqa: C901
    """Inspection of one node (the root of ``spec``) against ``sh``; recursion through children()."""
    d = specview.match(spec, sh, deep=False)
    sink.check(d is None, 'inspect/root', 'inspection methods describe the reference root node', ident, d)
    n = sh.arity
    for meth in ('paths', 'accessors', 'entries', 'children'):
        km, vm = outcome(getattr(spec, meth))
        sink.check(km == 'ok', f'inspect/{meth}-raises', f'{meth}() of a treespec obtained from a tree works', ident, lambda: (km, repr(vm)[:200], repr(spec)[:200]))
        if km != 'ok':
            return
    children = spec.children()
    sink.check(len(children) == n, 'children/len', 'children() has num_children entries', ident)
    if len(children) != n:
        return
    exp_repr = refmodel.render_spec(sh, o.none_is_leaf, ns)
    sink.check(repr(spec) == exp_repr, 'repr', 'repr follows the documented notation', ident, lambda: (repr(spec), exp_repr))
    sink.check(spec.is_one_level() == (sh.kind != 'leaf' and all(c.kind == 'leaf' for c in sh.children)) and optree.treespec_is_one_level(spec) == spec.is_one_level(),
               'is_one_level', 'is_one_level', ident)
    sink.check(sum(c.num_leaves for c in children) == spec.num_leaves - (1 if sh.kind == 'leaf' else 0), 'counts/leaves', 'children leaf counts add up', ident)
    sink.check(sum(c.num_nodes for c in children) + 1 == spec.num_nodes, 'counts/nodes', 'children node counts add up', ident)
    entries = spec.entries()
    for i in range(-n - 2, n + 2):
        kc, vc = outcome(lambda: spec.child(i))
        ke, ve = outcome(lambda: spec.entry(i))
        if -n <= i < n:
            ok = kc == 'ok' and vc == children[i] and repr(vc) == repr(children[i]) and hash(vc) == hash(children[i])
            sink.check(ok, 'child(i)', 'child(i) follows python index semantics', ident, lambda: dict(i=i, n=n, got=repr(vc)))
            sink.check(ke == 'ok' and _eq(ve, entries[i]), 'entry(i)', 'entry(i) follows python index semantics', ident, lambda: dict(i=i, n=n, got=repr(ve)))
            sink.check(optree.treespec_child(spec, i) == children[i] and _eq(optree.treespec_entry(spec, i), entries[i]), 'treespec_child/entry', 'function forms agree', ident)
        else:
            sink.check(kc == 'IndexError', 'child(i)/out-of-range', 'child(i) raises IndexError out of range', ident, lambda: dict(i=i, n=n, got=kc))
            sink.check(ke == 'IndexError', 'entry(i)/out-of-range', 'entry(i) raises IndexError out of range', ident, lambda: dict(i=i, n=n, got=ke))
    sink.count('index-probes', 2 * n + 4)
    # function forms of the inspection methods
    strict = sh.kind == 'leaf'
    loose = spec.num_nodes == 1
    ok = (optree.treespec_children(spec) == children and len(optree.treespec_entries(spec)) == len(entries) and all(_eq(a, b) for a, b in zip(optree.treespec_entries(spec), entries))
          and optree.treespec_is_leaf(spec) is strict and spec.is_leaf() is strict and optree.treespec_is_strict_leaf(spec) is strict
          and optree.treespec_is_leaf(spec, strict=False) is loose and spec.is_leaf(strict=False) is loose and loose == (sh.arity == 0)
          and _paths_eq(optree.treespec_paths(spec), spec.paths()) and optree.treespec_accessors(spec) == spec.accessors()
          and len(spec) == spec.num_leaves == sh.num_leaves and spec.num_children == n)
    sink.check(ok, 'function-forms', 'treespec_children / entries / is_leaf / is_strict_leaf / paths / accessors agree with the methods and the reference root', ident,
               lambda: dict(strict=strict, loose=loose, got=(optree.treespec_is_leaf(spec), optree.treespec_is_leaf(spec, strict=False), optree.treespec_is_strict_leaf(spec))))
    for c in children:
        sink.check(c.none_is_leaf == o.none_is_leaf and c.namespace == ns, 'children/flags', 'children inherit none_is_leaf and namespace', ident)
    # one_level
    one = spec.one_level()
    if sh.kind == 'leaf':
        sink.check(one is None and optree.treespec_one_level(spec) is None, 'one_level/leaf', 'one_level() of a leaf is None', ident)
    else:
        ok = one is not None and one.num_children == n and one.num_leaves == n and one.num_nodes == n + 1 and one.kind == spec.kind and one.type is spec.type
        ok = ok and all(_eq(a, b) for a, b in zip(one.entries(), entries)) and one.namespace == ns and one.none_is_leaf == o.none_is_leaf
        sink.check(ok, 'one_level', 'one_level() describes the same root over leaf children', ident, lambda: repr(one))
        if one is not None:
            # rebuild through transform
            it = iter(children)
            kr, rebuilt = outcome(lambda: one.transform(None, lambda s: next(it)))
            sink.check(kr == 'ok' and rebuilt == spec and hash(rebuilt) == hash(spec) and repr(rebuilt) == repr(spec) and _paths_eq(rebuilt.paths(), spec.paths()),
                       'rebuild/transform', 'one_level().transform(leaf -> i-th child) gives back an equal treespec with equal paths', ident, lambda: (repr(rebuilt), repr(spec)))
            # rebuild through constructors
            with o.ctx():
                coll, ctor, args, kwargs = collection_of(sh, children)
                if coll is not None or sh.kind in ('tuple', 'list', 'dict'):
                    kr, rebuilt = outcome(lambda: optree.treespec_from_collection(coll, none_is_leaf=o.none_is_leaf, namespace=o.namespace))
                    ok = kr == 'ok' and rebuilt == spec and hash(rebuilt) == hash(spec) and _paths_eq(rebuilt.paths(), spec.paths())
                    sink.check(ok, f'rebuild/from_collection/{sh.kind}', 'treespec_from_collection(children collection) gives back an equal treespec with equal paths', ident,
                               lambda: (repr(rebuilt), repr(spec)))
                    sink.count(f'ctor:from_collection:{sh.kind}')
                if ctor is not None:
                    kr, rebuilt = outcome(lambda: ctor(*args, none_is_leaf=o.none_is_leaf, namespace=o.namespace, **kwargs))
                    ok = kr == 'ok' and rebuilt == spec and hash(rebuilt) == hash(spec) and _paths_eq(rebuilt.paths(), spec.paths())
                    sink.check(ok, f'rebuild/{ctor.__name__}', f'{ctor.__name__}(children) gives back an equal treespec with equal paths', ident, lambda: (repr(rebuilt), repr(spec)))
                    sink.count(f'ctor:{ctor.__name__}')
    if sh.kind == 'none':
        sink.check(optree.treespec_none(none_is_leaf=o.none_is_leaf) == spec, 'rebuild/treespec_none', 'treespec_none() equals the None node', ident)
    if sh.kind == 'leaf':
        sink.check(optree.treespec_leaf(none_is_leaf=o.none_is_leaf) == spec, 'rebuild/treespec_leaf', 'treespec_leaf() equals a leaf', ident)
    if depth < 3:
        for c, cs in zip(children, sh.children):
            if cs.kind != 'leaf' or depth == 0:
                check_node(sink, c, cs, o, ns, ident, depth + 1)


def check_case(sink, c, o, seed, idx, pool):  # noqa: C901
    ident = dict(c.ident(), opt=repr(o))
    kw = o.kw()
    with o.ctx():
        ref = refmodel.flatten(c.tree, o.ref())
        spec = optree.tree_structure(c.tree, **kw)
    ns = refmodel.expected_namespace(ref, o.ref(), o.ins_in_current_ns)
    check_node(sink, spec, ref.shape, o, ns, ident)
    d = specview.match(spec, ref.shape)
    sink.check(d is None, 'inspect/deep', 'inspection is consistent at every node', ident, d)
    # transform identities
    sink.check(spec.transform() == spec and spec.transform(lambda s: s) == spec and spec.transform(None, lambda s: s) == spec and optree.treespec_transform(spec, lambda s: s, lambda s: s) == spec,
               'transform/identity', 'transform with identity functions is the identity', ident)
    # transform with per-leaf varying replacements and kind-swapping node functions, against the reference
    rng2 = gen.case_rng(seed, 'c08tr', idx)
    pool_descs = [gen.gen_desc(rng2, rng2.choice(['plain', 'seq', 'none']), 5)[0] for _ in range(3)]
    pool_opts = gen.Opt(o.none_is_leaf, '', 'none', o.dict_mode)
    pool_specs, pool_shapes = [], []
    with pool_opts.ctx():
        for d in pool_descs:
            t, _ = gen.materialize(d, rng2)
            pool_shapes.append(refmodel.flatten(t, pool_opts.ref()).shape)
            pool_specs.append(optree.tree_structure(t, **pool_opts.kw()))
    counter = [0]

    def f_leaf(s):
        counter[0] += 1
        return pool_specs[(counter[0] - 1) % 3]

    def f_node(s):
        # swap list <-> tuple nodes (same arity), keep everything else
        if s.kind == optree.PyTreeKind.LIST:
            return optree.treespec_tuple(s.children(), none_is_leaf=o.none_is_leaf, namespace=s.namespace)
        if s.kind == optree.PyTreeKind.TUPLE:
            return optree.treespec_list(s.children(), none_is_leaf=o.none_is_leaf, namespace=s.namespace)
        return s

    def ref_transform(sh, cnt):
        import dataclasses as _d

        if sh.kind == 'leaf':
            cnt[0] += 1
            return pool_shapes[(cnt[0] - 1) % 3]
        kids = [ref_transform(ch, cnt) for ch in sh.children]
        if sh.kind == 'list':
            return _d.replace(sh, kind='tuple', type=tuple, children=kids)
        if sh.kind == 'tuple':
            return _d.replace(sh, kind='list', type=list, children=kids)
        return _d.replace(sh, children=kids)

    kt, tr = outcome(lambda: spec.transform(f_node, f_leaf))
    want_shape = ref_transform(ref.shape, [0])
    dmatch = specview.match(tr, want_shape) if kt == 'ok' else repr(tr)
    sink.check(kt == 'ok' and dmatch is None, 'transform/varying-vs-reference', 'transform(f_node, f_leaf) with per-leaf replacements and kind-swapping node functions equals the reference', ident,
               lambda: dict(diff=dmatch, got=repr(tr)[:300]))
    if kt == 'ok':
        sink.check(counter[0] == spec.num_leaves, 'transform/leaf-calls', 'f_leaf is applied once per leaf', ident, (counter[0], spec.num_leaves))
        sink.check(tr.num_leaves == want_shape.num_leaves and tr.num_nodes == want_shape.num_nodes, 'transform/counts', 'counts of the transformed treespec add up', ident)
        sink.count('transform-varying')
    # re-entrant use: callbacks of transform that call transform themselves (recursive rebuild through one_level, nested leaf replacement)
    def rebuild(sp_, depth_=0):
        if sp_.num_nodes == 1 or depth_ > 8:
            return sp_
        it_ = iter(sp_.children())
        return sp_.one_level().transform(None, lambda _l: rebuild(next(it_), depth_ + 1))

    kr2, rb = outcome(lambda: rebuild(spec))
    sink.check(kr2 == 'ok' and rb == spec and hash(rb) == hash(spec) and _paths_eq(rb.paths(), spec.paths()) and rb.num_nodes == spec.num_nodes, 'transform/recursive-rebuild',
               'rebuilding a treespec bottom-up with nested transform calls inside the callbacks gives back an equal treespec', ident, lambda: (kr2, repr(rb)[:300]))
    kn, nested = outcome(lambda: spec.transform(lambda s_: s_.transform(lambda x: x, lambda x: x), lambda s_: pool_specs[0].transform(None, lambda _l: pool_specs[1])))
    kw_, want_n = outcome(lambda: spec.compose(pool_specs[0].compose(pool_specs[1])))
    sink.check(kn == kw_ and (kn != 'ok' or (nested == want_n and nested.num_leaves == want_n.num_leaves and nested.num_nodes == want_n.num_nodes)), 'transform/nested-in-callbacks',
               'a.transform(f_leaf = b.transform(f_leaf = c)) equals a.compose(b.compose(c)), also when the inner transform runs inside the outer callbacks', ident, lambda: (kn, repr(nested)[:300], repr(want_n)[:300]))
    sink.count('re-entrant-transforms')
    # compose
    rng = gen.case_rng(seed, 'c08inner', idx)
    inner_desc, _ = gen.gen_desc(rng, rng.choice(['plain', 'mixed', 'dicts', 'none']), 8)
    inner_tree, _ = gen.materialize(inner_desc, rng)
    io = gen.Opt(o.none_is_leaf, rng.choice(['', o.namespace]), 'none', o.dict_mode)
    with io.ctx():
        iref = refmodel.flatten(inner_tree, io.ref())
        ispec = optree.tree_structure(inner_tree, **io.kw())
    ins = refmodel.expected_namespace(iref, io.ref(), io.ins_in_current_ns)
    ident2 = dict(ident, inner=inner_desc.short()[:200], inner_opt=repr(io))
    kc, comp = outcome(lambda: spec.compose(ispec))
    sink.check(kc == 'ok', 'compose/raises', 'compose of compatible treespecs succeeds', ident2, lambda: repr(comp))
    if kc == 'ok':
        cshape = refmodel.compose(ref.shape, iref.shape)
        d = specview.match(comp, cshape)
        sink.check(d is None, 'compose/vs-reference', 'a.compose(b) is the reference composition', ident2, lambda: dict(diff=d, got=repr(comp)))
        sink.check(comp.num_leaves == spec.num_leaves * ispec.num_leaves, 'compose/leaves-multiply', 'num_leaves multiply', ident2)
        cns = ins or ns
        sink.check(comp.namespace == cns and comp.none_is_leaf == o.none_is_leaf, 'compose/flags', 'compose propagates namespace and none_is_leaf', ident2, lambda: (comp.namespace, cns))
        sink.check(repr(comp) == refmodel.render_spec(cshape, o.none_is_leaf, cns), 'compose/repr', 'repr of the composition', ident2, lambda: repr(comp))
        kt, tr = outcome(lambda: spec.transform(None, lambda s: ispec))
        sink.check(kt == 'ok' and tr == comp and hash(tr) == hash(comp) and (repr(tr) == repr(comp) or spec.num_leaves == 0), 'transform-const-vs-compose', 'transform(f_leaf=const s) equals compose(s)', ident2, lambda: (repr(tr), repr(comp)))
        # actual tree
        if o.pred == 'none' and io.namespace == o.namespace:
            with o.ctx():
                leaves, sp2 = optree.tree_flatten(c.tree, **kw)
                copies = [gen.materialize(inner_desc, gen.case_rng(seed, 'c08copy', idx * 1000 + i))[0] for i in range(len(leaves))]
                actual = sp2.unflatten(copies)
                ka, astruct = outcome(lambda: optree.tree_structure(actual, **kw))
            sink.check(ka == 'ok' and astruct == comp and hash(astruct) == hash(comp) and (repr(astruct) == repr(comp) or spec.num_leaves == 0), 'compose/vs-actual-tree', 'a.compose(b) equals the structure of an a-shaped tree of b-shaped trees', ident2,
                       lambda: (repr(astruct), repr(comp)))
            sink.count('compose-actual-trees')
    sink.cell(o.none_is_leaf, o.namespace or 'global', o.pred, o.dict_mode)
    for k in ref.shape.kinds():
        sink.cell('kind', k)
    sink.case(harness.fp(c.desc.short(), o.key(), inner_desc.short()), ref.shape.internal_nodes() >= 2, dict(ident2, treespec=repr(spec)[:200]))


class FlakyRepr:
    """an object whose repr raises the first time it is asked for (not ready yet) and works afterwards."""

    def __init__(self, tag):
        self.tag, self.fail = tag, True

    def __repr__(self):
        if self.fail:
            self.fail = False
            raise KeyError('repr not ready')
        return f'FlakyRepr({self.tag})'


def repr_history(sink, n):
    """repr after a repr that failed: the notation is a function of the treespec, not of what happened to an earlier call."""
    for i in range(n):
        k, m = FlakyRepr(('key', i)), FlakyRepr(('meta', i))
        tree = [{k: 1, 'b': (2, None)}, U.CSeq([3, {'z': 4}], meta=m), 5]
        sp = optree.tree_structure(tree, none_is_leaf=bool(i % 2))
        failures = 0
        for _ in range(3):
            try:
                got = repr(sp)
                break
            except KeyError:
                failures += 1
                got = None
        for obj_ in (k, m):
            try:
                repr(obj_)  # make sure both objects are past their first, failing repr
            except KeyError:
                pass
        want = repr(optree.tree_structure(tree, none_is_leaf=bool(i % 2)))  # a fresh, equal treespec over the same (now well-behaved) objects
        if got is None:
            got = outcome(lambda: repr(sp))[1]
        ident = dict(part='repr-history', i=i, failed_reprs=failures)
        sink.check(isinstance(got, str) and got == want and got.startswith('PyTreeSpec(') and str(sp) == want, 'repr/after-failed-repr', 'repr renders the documented notation, also after an earlier repr of the same treespec failed', ident, lambda: (got, want))
        kids = sp.children()
        sink.check(all(repr(c_).startswith('PyTreeSpec(') for c_ in kids) and repr(sp.one_level()).startswith('PyTreeSpec('), 'repr/after-failed-repr/derived', 'derived treespecs print in the documented notation', ident)
        del sp, kids
        fresh = [optree.tree_structure((j, [j, {'a': j}])) for j in range(6)]  # new treespecs, possibly at the address of the one just freed
        sink.check(all(repr(f_) == 'PyTreeSpec((*, [*, {\'a\': *}]))' for f_ in fresh), 'repr/after-failed-repr/unrelated', 'unrelated treespecs are printed normally afterwards', ident, lambda: [repr(f_) for f_ in fresh][:3])
        sink.count('repr-history-cases')


def run_shard(sink, tier, seed, shard):
    if (shard or {}).get('i', 0) == 0:
        sink.guard('harness', 'repr-history', {}, lambda: repr_history(sink, 60))
    n_trees = harness.scale(6000, 120000, tier)
    k = 4 if tier == 'quick' else 6
    opts = gen.all_opts()
    i0, step = (shard or {}).get('i', 0), (shard or {}).get('n', 1)
    for idx in range(i0, n_trees, step):
        c = harness.make_case('c08', seed, idx, size_budget=18)
        for j, o in enumerate(harness.opts_for(idx, k, opts)):
            sink.guard('harness', 'case', dict(c.ident(), opt=repr(o)), lambda: check_case(sink, c, o, seed, idx * 16 + j, None))


def finalize(sink, tier, seed):
    sink.require('oracle:inspection methods describe the reference root node')
    sink.require('index-probes')
    sink.require('compose-actual-trees')
    sink.require('transform-varying', 100)
    sink.require('re-entrant-transforms', 100)
    sink.require('repr-history-cases', 20)
    for ctor in ('treespec_tuple', 'treespec_list', 'treespec_dict', 'treespec_ordereddict', 'treespec_defaultdict', 'treespec_deque', 'treespec_namedtuple', 'treespec_structseq',
                 'from_collection:custom'):
        sink.require(f'ctor:{ctor}')
