"""Backend worker for C20: python -m vf.props.c20_worker <backend> <tier> <seed> <out.json>"""
from __future__ import annotations

import json
import os
import sys
import warnings

import numpy as np

import optree

from vf import gen, harness, same, verdict
from vf import run as vrun
from vf import universe as U

# the property says 'rejects' without naming an exception type: any Python exception other than an internal error is a rejection
NOT_A_REJECTION = ('accepted', 'SystemError', 'InternalError', 'MemoryError', 'RecursionError')


class PostBroken(Exception):
    pass


class NumpyB:
    name = 'numpy'
    dtypes = ['bool', 'int8', 'int16', 'int32', 'int64', 'uint8', 'uint16', 'uint32', 'uint64', 'float16', 'float32', 'float64', 'complex64', 'complex128']

    def __init__(self):
        import optree.integration.numpy as m

        self.mod = m

    def make(self, rng, shape, dt):
        n = int(np.prod(shape)) if shape else 1
        a = np.array([rng.randrange(0, 5) for _ in range(n)], dtype='float64').reshape(shape)
        if dt.startswith('float') and rng.random() < 0.2 and n:
            a.flat[0] = float('nan')
        a = a.astype(dt)
        # memory layouts other than C-contiguous: the *logical* (row-major) order of the elements is what ravel must follow
        r = rng.random()
        if len(shape) >= 2 and r < 0.3:
            a = np.asfortranarray(a)
            LAYOUTS['fortran'] = LAYOUTS.get('fortran', 0) + 1
        elif len(shape) >= 1 and shape[0] > 0 and r < 0.5:
            a = np.repeat(a, 2, axis=0)[::2]  # a strided, non-contiguous view with the same elements
            LAYOUTS['strided'] = LAYOUTS.get('strided', 0) + 1
        elif len(shape) >= 2 and r < 0.6:
            a = np.ascontiguousarray(np.moveaxis(a, 0, -1))
            a = np.moveaxis(a, -1, 0)  # permuted axes
            LAYOUTS['permuted'] = LAYOUTS.get('permuted', 0) + 1
        return a

    def is_array(self, x):
        return isinstance(x, np.ndarray)

    def dtype(self, x):
        return np.result_type(x)

    def shape(self, x):
        return tuple(np.shape(x))

    def promote(self, leaves):
        return np.result_type(*leaves)

    def ravel_cast(self, x, dt):
        return np.ravel(x).astype(dt)

    def concat(self, xs, dt):
        return np.concatenate(xs) if xs else np.zeros(0)

    def to_np(self, x):
        return np.asarray(x)

    def vector(self, rng, n, dt):
        return np.array([rng.randrange(0, 2) for _ in range(n)], dtype='float64').astype(dt)

    def other_dtype(self, dt):
        return np.dtype('float32') if np.dtype(dt) != np.dtype('float32') else np.dtype('int16')

    def dtype_eq(self, a, b):
        return np.dtype(a) == np.dtype(b)


class JaxB(NumpyB):
    name = 'jax'

    def __init__(self):
        import jax
        import jax.numpy as jnp

        import optree.integration.jax as m

        self.mod, self.jnp, self.jax = m, jnp, jax
        self.x64 = bool(jax.config.jax_enable_x64)
        self.dtypes = ['bool', 'int8', 'int16', 'int32', 'uint8', 'uint16', 'uint32', 'float16', 'bfloat16', 'float32', 'complex64']
        if self.x64:
            self.dtypes += ['int64', 'uint64', 'float64', 'complex128']
        self.name = 'jax'

    def make(self, rng, shape, dt):
        n = int(np.prod(shape)) if shape else 1
        a = np.array([rng.randrange(0, 5) for _ in range(n)], dtype='float64').reshape(shape)
        return self.jnp.asarray(a).astype(dt)

    def is_array(self, x):
        return isinstance(x, self.jax.Array)

    def dtype(self, x):
        return self.jnp.result_type(x)

    def shape(self, x):
        return tuple(self.jnp.shape(x))

    def promote(self, leaves):
        return self.jnp.result_type(*leaves)

    def ravel_cast(self, x, dt):
        return self.jnp.ravel(x).astype(dt)

    def concat(self, xs, dt):
        return self.jnp.concatenate(xs) if xs else self.jnp.zeros(0)

    def to_np(self, x):
        a = np.asarray(x)
        return a.astype('float32') if a.dtype.name == 'bfloat16' else a

    def vector(self, rng, n, dt):
        return self.jnp.asarray(np.array([rng.randrange(0, 2) for _ in range(n)], dtype='float64')).astype(dt)

    def other_dtype(self, dt):
        return self.jnp.dtype('float32') if self.jnp.dtype(dt) != self.jnp.dtype('float32') else self.jnp.dtype('int16')

    def dtype_eq(self, a, b):
        return self.jnp.dtype(a) == self.jnp.dtype(b)


class TorchB:
    name = 'torch'

    def __init__(self):
        import torch

        import optree.integration.torch as m

        self.mod, self.torch = m, torch
        self.dtypes = ['bool', 'uint8', 'int8', 'int16', 'int32', 'int64', 'float16', 'bfloat16', 'float32', 'float64', 'complex64', 'complex128']

    def _dt(self, dt):
        return getattr(self.torch, dt) if isinstance(dt, str) else dt

    def make(self, rng, shape, dt):
        n = int(np.prod(shape)) if shape else 1
        a = self.torch.tensor([float(rng.randrange(0, 5)) for _ in range(n)], dtype=self.torch.float64).reshape(shape)
        a = a.to(self._dt(dt))
        r = rng.random()
        if len(shape) >= 2 and r < 0.3:
            a = a.movedim(0, -1).contiguous().movedim(-1, 0)  # same elements, permuted strides
            LAYOUTS['permuted'] = LAYOUTS.get('permuted', 0) + 1
        elif len(shape) >= 1 and shape[0] > 0 and r < 0.5:
            a = self.torch.repeat_interleave(a, 2, dim=0)[::2]  # strided view
            LAYOUTS['strided'] = LAYOUTS.get('strided', 0) + 1
        return a

    def is_array(self, x):
        return self.torch.is_tensor(x)

    def dtype(self, x):
        return x.dtype

    def shape(self, x):
        return tuple(x.shape)

    def promote(self, leaves):
        dt = leaves[0].dtype
        for x in leaves[1:]:
            dt = self.torch.promote_types(dt, x.dtype)
        return dt

    def ravel_cast(self, x, dt):
        return self.torch.ravel(x).to(dt)

    def concat(self, xs, dt):
        return self.torch.cat(xs) if xs else self.torch.zeros(0)

    def to_np(self, x):
        if x.dtype == self.torch.bfloat16:
            x = x.to(self.torch.float32)
        return x.detach().numpy()

    def vector(self, rng, n, dt):
        return self.torch.tensor([float(rng.randrange(0, 2)) for _ in range(n)], dtype=self.torch.float64).to(dt)

    def other_dtype(self, dt):
        return self.torch.float32 if dt != self.torch.float32 else self.torch.int16

    def dtype_eq(self, a, b):
        return a == b


LAYOUTS = {}
SHAPES = [(), (), (1,), (3,), (0,), (2, 2), (2, 0), (1, 3), (0, 3, 1), (2, 1, 2), (4,), (1, 1, 1)]


def arr_eq(B, a, b):
    if B.shape(a) != B.shape(b) or not B.dtype_eq(B.dtype(a), B.dtype(b)):
        return False
    x, y = B.to_np(a), B.to_np(b)
    try:
        return bool(np.array_equal(x, y, equal_nan=True))
    except TypeError:
        return bool(np.array_equal(x, y))


def main(argv):  # noqa: C901
    backend, tier, seed, out = argv[0], argv[1], int(argv[2]), argv[3]
    warnings.simplefilter('ignore')
    B = {'numpy': NumpyB, 'jax': JaxB, 'torch': TorchB}[backend]()
    sink = verdict.Sink('C20', tier, seed, 'exploration')
    part = int(os.environ.get('C20_PART', '0'))
    n_trees = {'numpy': harness.scale(2500, 150000, tier), 'jax': harness.scale(350, 10000, tier), 'torch': harness.scale(700, 20000, tier)}[backend]
    state = {}

    # ---- contract on the real tree_ravel
    def ravel_post(tree, is_leaf, none_is_leaf, namespace, result):
        flat, unravel = result
        leaves = optree.tree_leaves(tree, is_leaf=is_leaf, none_is_leaf=none_is_leaf, namespace=namespace)
        ok = True
        if not leaves:
            ok = B.shape(flat) == (0,)
            state['why'] = 'empty tree must give an empty 1-D array'
        else:
            dt = B.promote(leaves)
            want = B.concat([B.ravel_cast(x, dt) for x in leaves], dt)
            ok = len(B.shape(flat)) == 1 and arr_eq(B, flat, want)
            state['why'] = dict(flat_dtype=str(B.dtype(flat)), want_dtype=str(dt), flat_shape=B.shape(flat), want_shape=B.shape(want))
        state['post_evals'] = state.get('post_evals', 0) + 1
        return ok

    real = B.mod.tree_ravel
    try:
        import icontract

        checked = icontract.ensure(ravel_post, error=lambda tree: PostBroken('tree_ravel post-condition'))(real)
        state['contract'] = 'icontract.ensure'
    except Exception:  # noqa: BLE001

        def checked(tree, is_leaf=None, *, none_is_leaf=False, namespace=''):
            r = real(tree, is_leaf, none_is_leaf=none_is_leaf, namespace=namespace)
            if not ravel_post(tree, is_leaf, none_is_leaf, namespace, r):
                raise PostBroken('tree_ravel post-condition')
            return r

        state['contract'] = 'plain wrapper (icontract not importable)'

    for idx in range(part, n_trees, 2 if (tier != 'quick' and backend != 'jax') else 1):
        rng = gen.case_rng(seed, f'c20:{backend}', idx)
        profile = ['plain', 'seq', 'mixed', 'none', 'custom', 'dicts'][idx % 6]
        desc, _ = gen.gen_desc(rng, profile, 10)
        has_none = any(n.k == 'none' for n in desc.walk())
        nil = (rng.random() < 0.3) and not has_none
        ns = rng.choice(['', U.NS, 'zz'])
        style = rng.choice(['single', 'mixed', 'mixed', 'two'])
        pool_dt = B.dtypes if style == 'mixed' else rng.sample(B.dtypes, 2) if style == 'two' else [rng.choice(B.dtypes)]
        info = []

        def leaf_of(d):
            shape = rng.choice(SHAPES)
            dt = rng.choice(pool_dt)
            info.append((shape, dt))
            return B.make(rng, shape, dt)

        tree, _ = gen.materialize(desc, rng, leaf_of=leaf_of)
        kw = dict(none_is_leaf=nil, namespace=ns)
        ident = dict(backend=backend, gen='c20', seed=seed, index=idx, desc=desc.short()[:200], leaves=[(list(s), d) for s, d in info][:12], nil=nil, ns=ns)
        if backend == 'jax':
            ident['x64'] = B.x64
        leaves = optree.tree_leaves(tree, **kw)
        if not all(B.is_array(x) or isinstance(x, float) for x in leaves):
            # under this namespace / predicate a non-array object is a leaf (e.g. a custom node outside its namespace)
            sink.count('skipped:non-array-leaf')
            continue
        try:
            flat, unravel = checked(tree, **kw)
        except PostBroken:
            sink.violation(f'ravel-postcondition/{backend}', 'tree_ravel returns the concatenation, in leaf order, of the raveled leaves in the promoted dtype', ident, state.get('why'))
            continue
        except Exception as e:  # noqa: BLE001
            if type(e).__name__ == 'ViolationError' or isinstance(e, PostBroken):
                sink.violation(f'ravel-postcondition/{backend}', 'tree_ravel post-condition', ident, state.get('why'))
            else:
                sink.violation(f'ravel-raises/{backend}/{type(e).__name__}', 'tree_ravel works on every pytree of arrays', ident, repr(e)[:400])
            continue
        sink.count(f'oracle:tree_ravel post-condition ({state["contract"]})')
        sink.count(f'ravel-calls:{backend}')
        n = len(leaves)
        dts = {str(B.dtype(x)) for x in leaves}
        mixed = len(dts) > 1
        if mixed:
            sink.count(f'mixed-dtype-trees:{backend}')
        if n == 0:
            sink.count(f'empty-trees:{backend}')
        if any(0 in B.shape(x) for x in leaves):
            sink.count(f'zero-size-leaves:{backend}')
        if any(B.shape(x) == () for x in leaves):
            sink.count(f'rank0-leaves:{backend}')
        # ---- unravel(flat) == tree
        def check_unravel(vec, label, expect_values):
            back = unravel(vec)
            sink.count(f'unravel-calls:{backend}')
            bl, bs = optree.tree_flatten(back, **kw)
            spec = optree.tree_structure(tree, **kw)
            sink.check(bs == spec, f'unravel-structure/{backend}', 'unravel returns the original structure', dict(ident, vec=label), lambda: (repr(bs), repr(spec)))
            d = same.diff(tree, back, leaf_eq=lambda a, b: True) if not any(isinstance(x, float) for x in leaves) else None
            sink.check(d is None, f'unravel-containers/{backend}', 'unravel rebuilds the same containers', dict(ident, vec=label), d)
            ok = len(bl) == n
            off = 0
            for i, (orig, got) in enumerate(zip(leaves, bl)):
                sz = int(np.prod(B.shape(orig))) if B.shape(orig) else 1
                ok_i = B.shape(got) == B.shape(orig) and B.dtype_eq(B.dtype(got), B.dtype(orig))
                if ok_i and expect_values == 'original':
                    o = orig if B.is_array(orig) else (np.asarray(orig) if backend == 'numpy' else orig)
                    ok_i = arr_eq(B, got, o if B.is_array(o) or backend == 'numpy' else got)
                elif ok_i and expect_values == 'slice':
                    want = vec[off: off + sz].reshape(B.shape(orig))
                    want = want.astype(B.dtype(orig)) if backend != 'torch' else want.to(B.dtype(orig))
                    ok_i = arr_eq(B, got, want)
                off += sz
                if not ok_i:
                    ok = False
                    sink.violation(f'unravel-leaf/{backend}/{label}', 'the i-th leaf has the i-th original shape and dtype and the corresponding slice of values', dict(ident, i=i, vec=label),
                                   dict(got_shape=B.shape(got), got_dtype=str(B.dtype(got)), want_shape=B.shape(orig), want_dtype=str(B.dtype(orig))))
                    break
            sink.count('oracle:unravel leaf shapes/dtypes/values')
            return back

        with warnings.catch_warnings():
            warnings.simplefilter('ignore')
            check_unravel(flat, 'flat', 'original')
            total = int(B.shape(flat)[0])
            pd = B.dtype(flat)
            v = B.vector(rng, total, pd)
            back = check_unravel(v, 'other-vector', 'slice')
            if total > 0:
                # "any other 1-D array of the same length and dtype": also VIEWS into larger buffers - a slice that starts in the middle of its
                # storage, every second element of a longer vector, one row of a batch of flat vectors
                k_off = rng.randrange(1, 4)
                views = (('offset-slice', B.vector(rng, total + k_off + 2, pd)[k_off:k_off + total]),
                         ('strided', B.vector(rng, 2 * total, pd)[::2]),
                         ('batch-row', B.vector(rng, 3 * total, pd).reshape((3, total))[rng.randrange(1, 3)]))
                for vname, vv in views:
                    check_unravel(vv, 'other-vector/' + vname, 'slice')
                    sink.count(f'vector-view:{backend}:{vname}')
            # ravel(unravel(v)) == v for representable values
            f2, _ = real(back, **kw)
            sink.check(arr_eq(B, f2, v) if n else B.shape(f2) == (0,), f'ravel-unravel-inverse/{backend}', 'ravel(unravel(v)) == v for representable v', ident, lambda: (str(B.dtype(f2)), str(B.dtype(v))))
            # rejections
            for bad_len in ({total + 1, max(0, total - 1)} - {total}):
                try:
                    unravel(B.vector(rng, bad_len, pd))
                    outc = 'accepted'
                except ValueError:
                    outc = 'ValueError'
                except Exception as e:  # noqa: BLE001
                    outc = type(e).__name__
                sink.check(outc not in NOT_A_REJECTION, f'reject-shape/{backend}', 'unravel rejects arrays of the wrong shape', dict(ident, bad_len=bad_len), outc)
                sink.count(f'rejections:shape:{backend}')
            if n:
                try:
                    v2 = B.vector(rng, total, pd).reshape((1, total)) if backend != 'torch' else B.vector(rng, total, pd).reshape(1, total)
                    unravel(v2)
                    outc = 'accepted'
                except ValueError:
                    outc = 'ValueError'
                except Exception as e:  # noqa: BLE001
                    outc = type(e).__name__
                sink.check(outc not in NOT_A_REJECTION, f'reject-shape-2d/{backend}', 'unravel rejects a 2-D array', ident, outc)
            if total == 1:
                try:
                    unravel(B.vector(rng, 1, pd).reshape(()))  # a 0-d array holds one element but is not 1-D
                    outc = 'accepted'
                except Exception as e:  # noqa: BLE001
                    outc = type(e).__name__
                sink.check(outc not in NOT_A_REJECTION, f'reject-shape-0d/{backend}', 'unravel rejects a 0-d array', ident, outc)
                sink.count(f'rejections:shape-0d:{backend}')
            if mixed:
                od = B.other_dtype(pd)
                try:
                    unravel(B.vector(rng, total, od))
                    outc = 'accepted'
                except ValueError:
                    outc = 'ValueError'
                except Exception as e:  # noqa: BLE001
                    outc = type(e).__name__
                sink.check(outc not in NOT_A_REJECTION, f'reject-dtype/{backend}', 'unravel rejects the wrong dtype when leaves had mixed dtypes', ident, outc)
                sink.count(f'rejections:dtype:{backend}')
        nontriv = (n >= 2 and mixed) or any(0 in B.shape(x) or B.shape(x) == () for x in leaves)
        sink.cell(backend, 'mixed' if mixed else 'single', nil, ns or 'global')
        sink.case(harness.fp(backend, desc.short(), tuple(info), nil, ns), nontriv, ident if idx % 250 == 0 else None)
    if backend == 'jax' and part == 0:
        # the x64 switch toggled INSIDE one process: whatever tree_ravel remembers between calls must not carry a promotion over
        enable_x64 = getattr(B.jax, 'enable_x64', None)
        if enable_x64 is None:
            from jax.experimental import enable_x64

        jnp = B.jnp
        rng = gen.case_rng(seed, 'c20:x64-toggle', 0)
        for rep in range(12):
            small = rng.choice(['int8', 'int16', 'int32'])
            for flag in ((True, False, True) if rep % 2 else (False, True, False)):
                with enable_x64(flag):
                    t = {'a': jnp.asarray([3000000000, 1], dtype='uint32'), 'b': [jnp.asarray([[1, 2]], dtype=small), jnp.asarray(7, dtype='uint32')]}
                    ident = dict(backend='jax', gen='c20:x64-toggle', rep=rep, x64=flag, small=small)
                    try:
                        flat, unravel = checked(t)
                        back = unravel(flat)
                        lv0, lv1 = optree.tree_leaves(t), optree.tree_leaves(back)
                        ok = len(lv0) == len(lv1) and all(B.shape(a) == B.shape(b) and B.dtype_eq(B.dtype(a), B.dtype(b)) and bool(jnp.array_equal(a, b)) for a, b in zip(lv0, lv1))
                        why = [str(B.dtype(flat))] + [str(B.dtype(x)) for x in lv1]
                    except PostBroken:
                        ok, why = False, ('post-condition', state.get('why'))
                    except Exception as e:  # noqa: BLE001
                        ok, why = False, repr(e)[:300]
                    sink.check(ok, 'x64-toggle/jax', 'tree_ravel / unravel are mutually inverse under the x64 setting in force at the call, whatever was raveled before under the other setting', ident, why)
                    sink.count('x64-toggles')
    for k, v in LAYOUTS.items():
        sink.count(f'leaf-layout:{backend}:{k}', v)
    sink.extra[f'contract:{backend}'] = state.get('contract')
    sink.extra[f'postcondition_evaluations:{backend}'] = state.get('post_evals', 0)
    with open(out, 'w') as f:
        json.dump(vrun._dump(sink), f, default=str)


if __name__ == '__main__':
    main(sys.argv[1:])
