"""C05 - tree_map family: once per leaf, in order, on aligned arguments."""
from __future__ import annotations

import optree

from vf import gen, harness, refmodel, same
from vf import universe as U

LEVEL = 'exploration'
RULE = (
    'C01 trees t x 0..3 rests (true suffixes by leaf substitution incl. neutral variations: dict kind / key order / factory / '
    'deque maxlen; and rests broken by exactly one local edit) x option grid, with a transparent call recorder as f; variants: '
    'tree_map, tree_map_, _with_path(_), _with_accessor(_), PyTreeSpec.traverse, PyTreeSpec.walk; identity-map freshness and the '
    'functor law. distinct = distinct (description, rests, options); non-trivial = >= 2 internal nodes or non-literal history'
)
ASSUMPTIONS = [
    'expected rest arguments are extracted by the reference model at the leaf paths and compared with vf.same',
    'rests are well-formed trees (malformed rests belong to C03/C15)',
    'immutable singletons () and None are exempt from the "new containers" clause',
]


_NTOK = object()


def shards(tier, seed):
    n = 8 if tier == 'quick' else 16
    return [dict(i=i, n=n) for i in range(n)]


def _eq(a, b):
    return a is b or (type(a) is type(b) and a == b)


def _path_eq(a, b):
    return len(a) == len(b) and all(_eq(x, y) for x, y in zip(a, b))


class Recorder:
    def __init__(self):
        self.calls = []
        self.out = []

    def __call__(self, *args):
        self.calls.append(args)
        r = U.Leaf(('out', len(self.calls) - 1))
        self.out.append(r)
        return r


def post_order(sh, acc, counter):
    if sh.kind == 'leaf':
        acc.append(('leaf', counter[0]))
        counter[0] += 1
        return
    for ch in sh.children:
        post_order(ch, acc, counter)
    acc.append(('node', sh.type, sh.arity))


def check_case(sink, c, o, seed, idx):  # noqa: C901
    rng = gen.case_rng(seed, 'c05r', idx)
    ident = dict(c.ident(), opt=repr(o))
    kw = o.kw()
    with o.ctx():
        ro = o.ref()
        ref = refmodel.flatten(c.tree, ro)
        n = len(ref.leaves)
        leaf_ids = {id(x) for x in ref.leaves}
        if leaf_ids & same.partial_children_ids(c.tree):
            sink.count('skipped:predicate-claims-partial-args')
            return
        # ---- rests: suffixes
        n_rests = idx % 4
        rests, rest_desc = [], []
        for _ in range(n_rests):
            d, _ = gen.substitute_leaves(c.desc, rng, p=0.4, profile='plain', budget=5)
            d, _ = gen.neutral_edit(d, rng) if rng.random() < 0.6 else (d, 0)
            t, _ = gen.materialize(d, rng)
            rests.append(t)
            rest_desc.append(d.short()[:200])
        ident['rests'] = rest_desc
        # reference: subtree of each rest at each leaf path
        ro_full = refmodel.Opts(o.none_is_leaf, o.namespace, None, o.insertion)
        exp_rest_args = []
        usable = True
        for t in rests:
            rsh = refmodel.flatten(t, ro_full).shape
            if not refmodel.is_prefix(ref.shape, rsh):
                usable = False  # e.g. the neutral edit touched a node that matters under these options
                break
            exp_rest_args.append(refmodel.subtrees_up_to(ref.shape, t, rsh, refmodel.child_object))
        if not usable:
            sink.count('skipped:rest-not-suffix-under-options')
            rests, exp_rest_args = [], []
        ident['n_rests'] = len(rests)
        paths = refmodel.paths(ref.shape)

        def verify_calls(name, rec, first=None):
            ok = len(rec.calls) == n
            sink.check(ok, f'{name}/call-count', f'{name}: f is called exactly once per leaf', ident, lambda: (len(rec.calls), n))
            if not ok:
                return
            for i, args in enumerate(rec.calls):
                args = list(args)
                if first == 'path':
                    p = args.pop(0)
                    sink.check(type(p) is tuple and _path_eq(p, paths[i]), f'{name}/path-arg', f'{name}: first argument is the i-th path', ident, lambda: (i, p, paths[i]))
                elif first == 'accessor':
                    a = args.pop(0)
                    sink.check(isinstance(a, optree.PyTreeAccessor) and _path_eq(a.path, paths[i]), f'{name}/accessor-arg', f'{name}: first argument is the i-th accessor', ident, lambda: (i, a, paths[i]))
                sink.check(len(args) == 1 + len(rests), f'{name}/arity', f'{name}: one argument per tree', ident)
                sink.check(args[0] is ref.leaves[i], f'{name}/leaf-order', f'{name}: i-th call receives the i-th leaf', ident, lambda: (i, args[0], ref.leaves[i]))
                for r, (arg, exp) in enumerate(zip(args[1:], exp_rest_args)):
                    sink.check(arg is exp[i], f'{name}/rest-alignment', f'{name}: rest argument is the subtree at the leaf path', ident, lambda: dict(i=i, rest=r, got=arg, want=exp[i]))

        def verify_result(name, res, rec):
            lv, sp = optree.tree_flatten(res, none_is_leaf=o.none_is_leaf, namespace=o.namespace, is_leaf=lambda x: type(x) is U.Leaf or (o.is_leaf is not None and o.is_leaf(x)))
            sink.check([id(x) for x in lv] == [id(x) for x in rec.out], f'{name}/result-leaves', f'{name}: i-th result leaf is the i-th return value', ident, lambda: (lv, rec.out))
            d = same.diff(c.tree, res, any_ids=leaf_ids)
            sink.check(d is None, f'{name}/result-structure', f'{name}: result has the structure of t', ident, d)

        variants = [
            ('tree_map', optree.tree_map, None, False),
            ('tree_map_', optree.tree_map_, None, True),
            ('tree_map_with_path', optree.tree_map_with_path, 'path', False),
            ('tree_map_with_path_', optree.tree_map_with_path_, 'path', True),
            ('tree_map_with_accessor', optree.tree_map_with_accessor, 'accessor', False),
            ('tree_map_with_accessor_', optree.tree_map_with_accessor_, 'accessor', True),
        ]
        for name, fn, first, inplace in variants:
            rec = Recorder()
            try:
                res = fn(rec, c.tree, *rests, **kw)
            except Exception as e:  # noqa: BLE001
                sink.violation(f'{name}/raises/{type(e).__name__}', f'{name} over a tree and rests that are suffixes of it returns a tree', ident, repr(e)[:300])
                continue
            verify_calls(name, rec, first)
            if inplace:
                sink.check(res is c.tree, f'{name}/returns-original', f'{name} returns the original tree object', ident)
            else:
                verify_result(name, res, rec)
        # ---- traverse / walk
        leaves, spec = optree.tree_flatten(c.tree, **kw)
        expected_events = []
        post_order(ref.shape, expected_events, [0])
        ev = []

        def f_leaf(x):
            U.tick('f_leaf', x)  # (in re-entrant cases the visitor calls back into optree - also into traverse / walk themselves)
            ev.append(('leaf', x))
            return x

        def f_node_t(node):
            U.tick('f_node', node)
            ev.append(('node', type(node), None))
            return node

        out = spec.traverse(leaves, f_node_t, f_leaf)
        got = [('leaf', ref.leaves.index(e[1]) if False else None) if e[0] == 'leaf' else ('node', e[1]) for e in ev]
        leaf_seq = [e[1] for e in ev if e[0] == 'leaf']
        sink.check([id(x) for x in leaf_seq] == [id(x) for x in ref.leaves], 'traverse/leaf-order', 'traverse applies f_leaf in leaf order', ident)
        want_kinds = [(e[0], None if e[0] == 'leaf' else e[1]) for e in expected_events]
        got_kinds = [(e[0], None if e[0] == 'leaf' else e[1]) for e in ev]
        sink.check(got_kinds == want_kinds, 'traverse/post-order', 'traverse applies f_node once per internal node after its children', ident, lambda: (got_kinds, want_kinds))
        d = same.diff(c.tree, out, leaf_ids=leaf_ids)
        sink.check(d is None, 'traverse/result', 'traverse with identity functions rebuilds the tree', ident, d)
        ev2 = []

        def f_leaf2(x):
            U.tick('f_leaf', x)
            ev2.append(('leaf', None))
            return x

        def f_node_w(node_type, node_data, children):
            U.tick('f_node', node_type)
            ev2.append(('node', node_type, len(children)))
            return (_NTOK, node_type, tuple(children))

        walked = spec.walk(leaves, f_node_w, f_leaf2)
        want_w = [('leaf', None) if e[0] == 'leaf' else ('node', e[1], e[2]) for e in expected_events]
        sink.check(ev2 == want_w, 'walk/post-order', 'walk applies f_node(type, data, children) once per internal node after its children', ident, lambda: (ev2, want_w))
        # the children handed to every node function are the results of ITS children, in order: linearise the nested result
        lin = []

        def linearise(r):
            if type(r) is tuple and len(r) == 3 and r[0] is _NTOK:
                for ch in r[2]:
                    linearise(ch)
                lin.append(('node', r[1], len(r[2])))
            else:
                lin.append(('leaf', id(r)))

        linearise(walked)
        li = iter(ref.leaves)
        want_lin = [('leaf', id(next(li))) if e[0] == 'leaf' else ('node', e[1], e[2]) for e in expected_events]
        sink.check(lin == want_lin, 'walk/children-are-the-childrens-results', 'walk hands every node function the results of its own children, in order', ident, lambda: (lin[:12], want_lin[:12]))
        # ---- identity map builds new containers, same leaves
        ident_map = optree.tree_map(lambda x: x, c.tree, **kw)
        d = same.diff(c.tree, ident_map, leaf_ids=leaf_ids)
        sink.check(d is None, 'identity/same', 'identity map is structurally identical with the same leaf objects', ident, d)
        if not (n == 1 and ref.shape.kind == 'leaf'):
            sink.check(not same.shares_container(c.tree, ident_map, stop_ids=leaf_ids), 'identity/fresh-containers', 'identity map is built from new containers', ident)
        # ---- functor law
        G, F = {}, {}

        def g(x):
            return G.setdefault(id(x), U.Leaf(('g', len(G))))

        def f(x):
            return F.setdefault(id(x), U.Leaf(('f', len(F))))

        kw2 = dict(kw)
        if o.is_leaf is not None:
            pred = o.is_leaf
            kw2['is_leaf'] = lambda x: type(x) is not U.Leaf and pred(x)
        lhs = optree.tree_map(lambda x: f(g(x)), c.tree, **kw)
        mid = optree.tree_map(g, c.tree, **kw)
        rhs = optree.tree_map(f, mid, **kw2)
        d = same.diff(lhs, rhs)
        sink.check(d is None, 'functor-law', 'map(f.g) == map(f).map(g)', ident, d)
        # ---- a rest that is not a suffix: ValueError before f is called at all
        bd, edit = gen.breaking_edit(c.desc, rng)
        if bd is not None:
            bt, _ = gen.materialize(bd, rng)
            bsh = refmodel.flatten(bt, ro_full).shape
            if not refmodel.is_prefix(ref.shape, bsh):
                for name, fn, first, inplace in variants:
                    rec = Recorder()
                    pos = rng.randrange(len(rests) + 1)
                    rr = list(rests)
                    rr.insert(pos, bt)
                    try:
                        fn(rec, c.tree, *rr, **kw)
                        outcome = 'returned'
                    except ValueError:
                        outcome = 'ValueError'
                    except Exception as e:  # noqa: BLE001
                        outcome = type(e).__name__
                    sink.check(outcome == 'ValueError', f'{name}/non-suffix-rest-raises', 'a rest that is not a suffix raises ValueError', dict(ident, edit=edit, bad=bd.short()[:200]), outcome)
                    sink.check(len(rec.calls) == 0, f'{name}/no-call-before-failure', 'ValueError is raised before f is called at all', dict(ident, edit=edit), len(rec.calls))
                sink.count(f'broken-rest:{edit}')
    sink.cell(o.none_is_leaf, o.namespace or 'global', o.pred, o.dict_mode)
    sink.cell('rests', len(rests))
    sink.case(harness.fp(c.desc.short(), tuple(rest_desc), o.key()), harness.nontrivial(ref.shape, c.mat), dict(ident, leaves=n))


def run_shard(sink, tier, seed, shard):
    n_trees = harness.scale(6000, 120000, tier)
    k = 4 if tier == 'quick' else 6
    # f replaces leaf values: predicates that look at leaf values would classify the mapped tree differently (not a property of tree_map)
    opts = [o for o in gen.all_opts() if o.pred not in gen.LEAF_CONTENT_PREDS]
    i0, step = (shard or {}).get('i', 0), (shard or {}).get('n', 1)
    for idx in range(i0, n_trees, step):
        c = harness.make_case('c05', seed, idx, size_budget=16)
        for j, o in enumerate(harness.opts_for(idx, k, opts)):
            with harness.reentrant(idx % 8 == 0):  # an eighth of the cases with callbacks that call back into optree
                sink.guard('harness', 'case', dict(c.ident(), opt=repr(o)), lambda: check_case(sink, c, o, seed, idx * 16 + j))
            if idx % 8 == 0:
                sink.count('cases-with-re-entrant-callbacks')


def finalize(sink, tier, seed):
    sink.require('oracle:tree_map: f is called exactly once per leaf')
    sink.require('oracle:tree_map: rest argument is the subtree at the leaf path')
    sink.require('oracle:ValueError is raised before f is called at all')
    for e in ('kind', 'arity+', 'arity-', 'key', 'node2leaf'):
        sink.require(f'broken-rest:{e}')
