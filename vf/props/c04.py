"""C04 - paths and accessors address exactly the leaves."""
from __future__ import annotations

import ast

import optree

from vf import gen, harness, refmodel
from vf import universe as U

LEVEL = 'exploration'
RULE = (
    'C01 trees (custom nodes expose children through their declared entries: FlattenedEntry, SequenceEntry, MappingEntry, '
    'GetAttrEntry, DataclassEntry, a user PyTreeEntry subclass, AutoEntry dispatch) x option grid; per leaf: accessor(tree) is leaf, '
    'accessor.path == path, entry class/type/kind/field against the reference typing, prefix-freeness, ==/hash laws, slice/concat '
    'composition, eval(codify) for code-generating entries with literal keys. distinct = distinct (description, options); '
    'non-trivial = >= 2 internal nodes or non-literal history'
)
ASSUMPTIONS = [
    'expected entry typing comes from vf.refmodel.typed_paths (README / accessor docs)',
    'FlattenedEntry (no real code) and keys without a literal repr are excluded from the eval(codify) clause only',
]


def shards(tier, seed):
    n = 8 if tier == 'quick' else 16
    return [dict(i=i, n=n) for i in range(n)]


def _eq(a, b):
    return a is b or (type(a) is type(b) and a == b)


def _path_eq(a, b):
    return len(a) == len(b) and all(_eq(x, y) for x, y in zip(a, b))


def literal(k):
    try:
        r = ast.literal_eval(repr(k))
    except Exception:  # noqa: BLE001
        return False
    return type(r) is type(k) and r == k and not (isinstance(k, float) and k != k)


CODE_ENTRIES = (optree.GetItemEntry, optree.GetAttrEntry, U.MyEntry)
TWIN_CLASSES = (optree.PyTreeEntry, optree.GetItemEntry, optree.GetAttrEntry, optree.FlattenedEntry, optree.SequenceEntry, optree.MappingEntry, optree.DataclassEntry,
                optree.NamedTupleEntry, optree.StructSequenceEntry)


def check_case(sink, c, o):  # noqa: C901
    ident = dict(c.ident(), opt=repr(o))
    kw = o.kw()
    with o.ctx():
        ref = refmodel.flatten(c.tree, o.ref())
        accs, leaves, spec = optree.tree_flatten_with_accessor(c.tree, **kw)
        paths = optree.tree_paths(c.tree, **kw)
        tp = refmodel.typed_paths(ref.shape)
        rp = refmodel.paths(ref.shape)
        n = len(leaves)
        sink.check(len(accs) == len(paths) == n == len(tp), 'counts', 'one accessor and one path per leaf', ident, lambda: (len(accs), len(paths), n, len(tp)))
        if not (len(accs) == len(paths) == n == len(tp)):
            return
        sink.check(all(_path_eq(p, q) for p, q in zip(paths, rp)), 'paths-vs-reference', 'paths equal the reference paths', ident, lambda: (paths, rp))
        for i in range(n):
            a = accs[i]
            try:
                got = a(c.tree)
            except Exception as e:  # noqa: BLE001
                got = e
            sink.check(got is leaves[i], 'accessor-hits-leaf', 'accessor[i](tree) is leaf[i]', ident, lambda: dict(i=i, accessor=repr(a), got=got, want=leaves[i]))
            sink.check(_path_eq(a.path, paths[i]), 'accessor-path', 'accessor[i].path == path[i]', ident, lambda: (a.path, paths[i]))
            exp = tp[i]
            ok = len(a) == len(exp)
            if ok:
                for e, (entry, cls, ntype, kname) in zip(a, exp):
                    if not (_eq(e.entry, entry) and type(e) is cls and e.type is ntype and e.kind == getattr(optree.PyTreeKind, kname)):
                        ok = False
                        break
                    if cls is optree.NamedTupleEntry and e.field != ntype._fields[entry]:
                        ok = False
                        break
                    if cls is optree.StructSequenceEntry and e.field != optree.structseq_fields(ntype)[entry]:
                        ok = False
                        break
                    if cls is optree.DataclassEntry and e.name != (entry if isinstance(entry, str) else [f.name for f in __import__('dataclasses').fields(ntype) if f.init][entry]):
                        ok = False
                        break
            sink.check(ok, 'entry-typing', 'each entry is typed with the parent node type/kind and the documented entry class', ident,
                       lambda: dict(i=i, accessor=repr(a), expected=[(x[0], x[1].__name__, x[2], x[3]) for x in exp]))
            # slicing / concatenation
            if len(a) >= 1:
                j = (i * 7 + 1) % (len(a) + 1)
                head, tail = a[:j], a[j:]
                sink.check(type(head) is optree.PyTreeAccessor and type(tail) is optree.PyTreeAccessor, 'slice-type', 'slices are accessors', ident)
                sink.check(head + tail == a and hash(head + tail) == hash(a), 'concat-law', 'acc[:j] + acc[j:] == acc', ident, lambda: (head, tail, a))
                try:
                    via = tail(head(c.tree))
                except Exception as e:  # noqa: BLE001
                    via = e
                sink.check(via is leaves[i], 'slice-compose', 'acc[j:](acc[:j](tree)) is leaf', ident, lambda: (head, tail, via))
            # codify / eval
            if all(isinstance(e, CODE_ENTRIES) for e in a) and all(
                literal(e.entry) for e in a if isinstance(e, optree.GetItemEntry) and not isinstance(e, (optree.NamedTupleEntry, optree.StructSequenceEntry))
            ):
                code = a.codify('t')
                try:
                    val = eval(code, {'t': c.tree})  # noqa: S307
                except Exception as e:  # noqa: BLE001
                    val = e
                sink.check(val is leaves[i], 'codify-eval', 'eval(accessor.codify("t")) is the leaf', ident, lambda: dict(code=code, got=val))
                sink.count('codify-evaluated')
        # equality / hash consistency across entry classes: whenever two entries (or accessors) compare
        # equal - also entries of *different* classes built for the same (entry, type, kind) - they hash equally
        for i in range(min(n, 3)):
            a = accs[i]
            for pos, e in enumerate(a[:4]):
                twins = []
                for cls in TWIN_CLASSES + (type('SubEntry', (type(e),), {'__slots__': ()}),):
                    try:
                        twins.append(cls(e.entry, e.type, e.kind))
                    except Exception:  # noqa: BLE001
                        continue
                for t in twins:
                    try:
                        eq, eq2 = (e == t), (t == e)
                        he, ht = hash(e), hash(t)
                    except Exception:  # noqa: BLE001
                        continue
                    sink.check(eq == eq2, 'entry-eq-symmetric', 'entry equality is symmetric', ident, lambda: (repr(e), repr(t)))
                    if eq:
                        sink.check(he == ht and len({e, t}) == 1, 'entry-eq-hash/' + type(e).__name__ + '-vs-' + type(t).__mro__[1].__name__ if type(t).__name__ == 'SubEntry' else 'entry-eq-hash/' + type(e).__name__ + '-vs-' + type(t).__name__,
                                   'equal entries hash equally', ident, lambda: (repr(e), repr(t), he, ht))
                        b = optree.PyTreeAccessor((*a[:pos], t, *a[pos + 1:]))
                        sink.check(a == b and hash(a) == hash(b) and b in {a} and hash(a[:pos] + b[pos:]) == hash(a), 'accessor-eq-hash/mixed-classes',
                                   'accessors that compare equal hash equally (also when built from equal entries of other classes)', ident, lambda: (repr(a), repr(b)))
                        sink.count('equal-entry-twins')
        # distinctness and prefix-freeness
        m = min(n, 40)
        bad = None
        for i in range(m):
            for j in range(m):
                if i != j:
                    pi, pj = paths[i], paths[j]
                    if len(pi) <= len(pj) and _path_eq(pi, pj[: len(pi)]):
                        bad = (i, j, pi, pj)
        sink.check(bad is None, 'prefix-free', 'paths are distinct and none is a prefix of another', ident, lambda: bad)
        # equality / hash of accessors
        again = spec.accessors()
        ok = all(a == b and not (a != b) and hash(a) == hash(b) for a, b in zip(accs, again)) and len(again) == n
        sink.check(ok, 'accessor-eq-hash', 'independently built accessors are equal with equal hashes', ident, lambda: (accs, again))
        ok = all(accs[i] != accs[j] for i in range(m) for j in range(m) if i != j)
        sink.check(ok, 'accessor-distinct', 'accessors of distinct leaves differ', ident)
        if n:
            sink.check(len({*accs}) == n if n <= 200 else True, 'accessor-set', 'accessors work as set members', ident)
    sink.cell(o.none_is_leaf, o.namespace or 'global', o.pred, o.dict_mode)
    for p in tp:
        for e in p:
            sink.cell('entry', e[1].__name__, e[3])
    sink.case(harness.fp(c.desc.short(), o.key()), harness.nontrivial(ref.shape, c.mat), dict(ident, n=n, first_accessor=repr(accs[0])[:200] if accs else None))


def real_structseq_probe(sink):
    """Struct sequences as the interpreter really produces them (with unnamed / extra fields)."""
    import os
    import sys
    import time

    for name, t in (('os.stat_result', os.stat('/')), ('time.struct_time', time.localtime(0)), ('sys.float_info', sys.float_info), ('os.times_result', os.times()), ('sys.version_info', sys.version_info)):
        accs, leaves, spec = optree.tree_flatten_with_accessor([t, {'k': t}])
        ident = dict(part='real-structseq', type=name)
        for i, (a, leaf) in enumerate(zip(accs, leaves)):
            sink.check(a(t if False else [t, {'k': t}]) is leaf, 'accessor-hits-leaf', 'accessor[i](tree) is leaf[i]', dict(ident, i=i), repr(a))
            code = a.codify('t')
            try:
                val = eval(code, {'t': [t, {'k': t}]})  # noqa: S307
            except Exception as e:  # noqa: BLE001
                val = e
            unnamed = isinstance(a[-1], optree.StructSequenceEntry) and a[-1].entry >= type(t).n_sequence_fields - type(t).n_unnamed_fields
            sink.check(val is leaf, 'codify-eval/structseq-unnamed-field' if unnamed else 'codify-eval', 'eval(accessor.codify("t")) is the leaf', dict(ident, i=i, code=code), lambda: dict(got=repr(val), want=repr(leaf)))
        sink.count('real-structseq-probes')


def run_shard(sink, tier, seed, shard):
    n_trees = harness.scale(12000, 200000, tier)
    k = 5 if tier == 'quick' else 8
    opts = gen.all_opts()
    i0, step = (shard or {}).get('i', 0), (shard or {}).get('n', 1)
    if i0 == 0:
        sink.guard('harness', 'real-structseq', {}, lambda: real_structseq_probe(sink))
    for idx in range(i0, n_trees, step):
        c = harness.make_case('c04', seed, idx, profile=['mixed', 'custom', 'dicts', 'seq', 'plain', 'custom', 'wide'][idx % 7])
        for o in harness.opts_for(idx, k, opts):
            with harness.reentrant(idx % 8 == 0):  # an eighth of the cases with callbacks that call back into optree
                sink.guard('harness', 'case', dict(c.ident(), opt=repr(o)), lambda: check_case(sink, c, o))
            if idx % 8 == 0:
                sink.count('cases-with-re-entrant-callbacks')


def finalize(sink, tier, seed):
    sink.require('oracle:accessor[i](tree) is leaf[i]')
    sink.require('codify-evaluated')
    sink.require('real-structseq-probes')
    sink.require('equal-entry-twins', 100)
    for cell in ('entry/FlattenedEntry/CUSTOM', 'entry/DataclassEntry/CUSTOM', 'entry/NamedTupleEntry/NAMEDTUPLE', 'entry/StructSequenceEntry/STRUCTSEQUENCE',
                 'entry/MyEntry/CUSTOM', 'entry/GetAttrEntry/CUSTOM', 'entry/MappingEntry/CUSTOM', 'entry/SequenceEntry/DEQUE'):
        if sink.cells.get(cell, 0) == 0:
            sink.counters[f'cell:{cell}'] = 0
            sink.require(f'cell:{cell}')
