"""C12 - registry changes are namespace-isolated, atomic and reversible (history enumeration)."""
from __future__ import annotations

import itertools
import os
import time
import warnings
from collections import namedtuple

import optree
import optree._C as _C
from optree.registry import __GLOBAL_NAMESPACE as GLOBAL

from vf import gen, harness

LEVEL = 'fault_enumeration'
EXHAUSTIVE = True
RULE = (
    'all histories of length <= 2 over the full alphabet {register(fn) | register_class | unregister | optree dataclass} x types {plain, its '
    'subclass, namedtuple subclass, struct sequence, built-in list, optree dataclass candidate} x namespaces {global sentinel, a, b} plus argument '
    'faults {non-class, bad path_entry_type, empty namespace, non-str namespace}, all of length 3 over a reduced alphabet, each under warnings '
    'as errors on/off, plus sampled histories of length 4-10; after EVERY step (successful or failing) the engine (tree_flatten / '
    '_with_path / tree_iter x none_is_leaf x namespaces {global, a, b, zz}) and the Python view (get(T, ns), get(ns)[T], '
    'tree_flatten_one_level) are compared with a dict model. distinct = distinct histories; non-trivial = >= 2 steps'
)
ASSUMPTIONS = [
    'the model: dict[(namespace, type)] -> registration; lookup = namespace first, then global; a failing call changes nothing',
    'which registration is active is observed behaviourally: every registration has its own flatten function that logs its id',
    'fresh classes per history; the shared struct-sequence / built-in types are restored after each history and the restoration is verified',
    'exhaustive only for the bounded history space described in rule',
]

NSS_OBS = ('', 'a', 'b', 'zz')
StructSeq = os.terminal_size
Builtin = list


class History:
    """Fresh type universe + registration bookkeeping for one history."""

    def __init__(self):
        self.P = type('P', (), {'__init__': lambda s, v=0: setattr(s, 'v', v)})
        self.S = type('S', (self.P,), {})
        self.N = type('N', (namedtuple('NBase', ['x', 'y']),), {'__slots__': ()})

        class K:  # class-registration candidate (has tree_flatten / tree_unflatten)
            def __init__(s, v=0):
                s.v = v

            def tree_flatten(s):
                LOG.append(('class', type(s)))
                return (s.v,), 'class-meta', None

            @classmethod
            def tree_unflatten(cls, m, c):
                return cls(*c)

        self.K = K
        self.D = type('D', (), {'__annotations__': {'x': int}, 'x': 0})
        self.types = dict(P=self.P, S=self.S, N=self.N, K=self.K, D=self.D, SS=StructSeq, B=Builtin)
        self.regs = {}  # model: (ns, typename) -> reg id
        self.decorated = False
        self.funcs = {}  # reg id -> flatten func
        self.counter = itertools.count(1)

    def instance(self, tn):
        t = self.types[tn]
        if tn == 'N':
            return t(1, 2)
        if tn == 'SS':
            return t((1, 2))
        if tn == 'B':
            return [1, 2]
        if tn == 'D':
            try:
                return t()
            except Exception:  # noqa: BLE001
                return t(0)
        return t()

    def new_reg(self):
        rid = next(self.counter)

        def flatten(o, rid=rid):
            LOG.append(('fn', rid))
            if isinstance(o, (tuple, list)):
                return tuple(o), ('tag', rid), None
            return (getattr(o, 'v', getattr(o, 'x', 0)),), ('tag', rid), None

        def unflatten(m, c):
            return c

        self.funcs[rid] = flatten
        return rid, flatten, unflatten


LOG = []


def ns_arg(ns):
    return GLOBAL if ns == 'G' else ns


def ns_key(ns):
    return '' if ns == 'G' else ns


def is_fault_ns(ns):
    return ns in ('', 3)


def full_alphabet():
    ops = []
    for tn in ('P', 'S', 'N', 'SS', 'B'):
        for ns in ('G', 'a', 'b'):
            ops.append(('reg', tn, ns))
            ops.append(('unreg', tn, ns))
    for ns in ('G', 'a', 'b'):
        ops.append(('regclass', 'K', ns))
        ops.append(('unreg', 'K', ns))
        ops.append(('dc', 'D', ns))
        ops.append(('unreg', 'D', ns))
    ops += [('reg', 'NONCLASS', 'a'), ('reg-badentry', 'P', 'a'), ('reg', 'P', ''), ('reg', 'P', 3), ('unreg', 'P', ''), ('unreg', 'NONCLASS', 'G'), ('unreg', 'P', 3), ('regclass', 'P', 'a'),
            ('regclass', 'K', '')]
    return ops


def reduced_alphabet():
    return [('reg', 'P', 'G'), ('reg', 'P', 'a'), ('unreg', 'P', 'G'), ('unreg', 'P', 'a'), ('reg', 'N', 'G'), ('reg', 'N', 'a'), ('unreg', 'N', 'a'), ('unreg', 'N', 'G'),
            ('reg', 'SS', 'b'), ('unreg', 'SS', 'b'), ('reg', 'P', ''), ('dc', 'D', 'a'), ('regclass', 'K', 'G'), ('unreg', 'K', 'G')]


def is_nt_or_ss(tn):
    return tn in ('N', 'SS')


def model_step(h, op, warn_error):
    """Return ('ok'|'raise', mutate-fn) according to the documented behaviour."""
    kind, tn, ns = op
    if tn == 'NONCLASS':
        return 'raise', None
    if kind == 'reg-badentry':
        return 'raise', None
    if is_fault_ns(ns):
        return 'raise', None
    key = (ns_key(ns), tn)
    if kind in ('reg', 'regclass', 'dc'):
        if kind == 'regclass' and tn != 'K':
            return 'raise', None  # no tree_flatten / tree_unflatten
        if tn == 'B':
            return 'raise', None
        if kind == 'dc' and h.decorated:
            return 'raise', None  # decorating twice (rejected even after an unregister: the class stays decorated)
        if key in h.regs:
            return 'raise', None
        if is_nt_or_ss(tn) and warn_error:
            return 'raise', None
        return 'ok', key
    if kind == 'unreg':
        if tn == 'B' or key not in h.regs:
            return 'raise', None
        return 'ok', key
    raise AssertionError(op)


def apply_op(h, op):
    kind, tn, ns = op
    t = 42 if tn == 'NONCLASS' else h.types[tn]
    if kind == 'reg':
        rid, fl, un = h.new_reg()
        optree.register_pytree_node(t, fl, un, namespace=ns_arg(ns))
        return rid
    if kind == 'reg-badentry':
        rid, fl, un = h.new_reg()
        optree.register_pytree_node(t, fl, un, path_entry_type=int, namespace=ns_arg(ns))
        return rid
    if kind == 'regclass':
        optree.register_pytree_node_class(t, namespace=ns_arg(ns))
        return 'class'
    if kind == 'dc':
        optree.dataclasses.dataclass(t, namespace=ns_arg(ns))
        return 'dc'
    if kind == 'unreg':
        optree.unregister_pytree_node(t, namespace=ns_arg(ns))
        return None
    raise AssertionError(op)


def expected_active(h, tn, ns):
    """Model lookup: registration id active for type tn when flattening in namespace ns."""
    if ns and (ns, tn) in h.regs:
        return h.regs[(ns, tn)], ns
    if ('', tn) in h.regs:
        return h.regs[('', tn)], ''
    return None, None


def observe(sink, h, ident, step):  # noqa: C901
    """Compare engine + Python views with the model for every type / namespace / none_is_leaf."""
    for tn in ('P', 'S', 'N', 'K', 'D', 'SS', 'B'):
        t = h.types[tn]
        inst = h.instance(tn)
        for ns in NSS_OBS:
            rid, where = expected_active(h, tn, ns)
            want_log = [('class', t)] if rid == 'class' else ([] if rid in (None, 'dc') else [('fn', rid)])
            for nil in (False, True):
                for trav in ('flatten', 'with_path', 'iter'):
                    del LOG[:]
                    try:
                        if trav == 'flatten':
                            spec = optree.tree_structure(inst, none_is_leaf=nil, namespace=ns)
                            kind = spec.kind
                        elif trav == 'with_path':
                            spec = optree.tree_flatten_with_path(inst, none_is_leaf=nil, namespace=ns)[2]
                            kind = spec.kind
                        else:
                            list(optree.tree_iter(inst, none_is_leaf=nil, namespace=ns))
                            kind = None
                        got = list(LOG)
                        err = None
                    except Exception as e:  # noqa: BLE001
                        got, err, kind = None, e, None
                    ok = err is None and got == want_log
                    if ok and kind is not None:
                        if rid is not None:
                            ok = kind == optree.PyTreeKind.CUSTOM
                        else:
                            ok = kind == {'N': optree.PyTreeKind.NAMEDTUPLE, 'SS': optree.PyTreeKind.STRUCTSEQUENCE, 'B': optree.PyTreeKind.LIST}.get(tn, optree.PyTreeKind.LEAF)
                    sink.check(ok, f'engine-vs-model/{trav}', 'flattening treats a type as custom exactly when registered in the namespace or globally, using that registration',
                               dict(ident, step=step, type=tn, ns=ns, nil=nil), lambda: dict(got=got, want=want_log, err=repr(err), kind=str(kind), model=h.regs))
            # Python view
            try:
                e = optree.register_pytree_node.get(t, namespace=ns)
                d = optree.register_pytree_node.get(namespace=ns)
                err = None
            except Exception as ex:  # noqa: BLE001
                e = d = None
                err = ex
            if err is not None:
                sink.violation('python-view/raises', 'register_pytree_node.get works', dict(ident, step=step, type=tn, ns=ns), repr(err))
                continue
            if rid is None:
                ok1 = (e is None) if tn in ('P', 'S', 'K', 'D') else (e is not None and e.kind == {'N': optree.PyTreeKind.NAMEDTUPLE, 'SS': optree.PyTreeKind.STRUCTSEQUENCE, 'B': optree.PyTreeKind.LIST}[tn])
                ok2 = (t not in d) if tn != 'B' else (t in d)
            else:
                ok1 = e is not None and e.kind == optree.PyTreeKind.CUSTOM and e.namespace == where and e.type is t and (rid in ('class', 'dc') or e.flatten_func is h.funcs[rid])
                e2 = d.get(t)
                ok2 = e2 is not None and e2.namespace == where and (rid in ('class', 'dc') or e2.flatten_func is h.funcs[rid])
            sink.check(ok1, 'python-view/get(cls)', 'register_pytree_node.get(cls, namespace) describes what flattening will do', dict(ident, step=step, type=tn, ns=ns),
                       lambda: dict(entry=repr(e), model=h.regs, want=(rid, where)))
            shadow = 'shadowed' if (ns and (ns, tn) in h.regs and ('', tn) in h.regs) else 'plain'
            sink.check(ok2, f'python-view/get()[cls]/{shadow}', 'register_pytree_node.get(namespace=...)[cls] describes what flattening will do', dict(ident, step=step, type=tn, ns=ns),
                       lambda: dict(entry=repr(d.get(t)), model=h.regs, want=(rid, where)))
            # one-level twin
            del LOG[:]
            try:
                optree.tree_flatten_one_level(inst, namespace=ns)
                got, err = list(LOG), None
            except ValueError as ex:
                got, err = None, ex
            except Exception as ex:  # noqa: BLE001
                got, err = None, ex
            if rid is None and tn in ('P', 'S', 'K', 'D'):
                ok3 = isinstance(err, ValueError)
            else:
                ok3 = err is None and got == want_log
            sink.check(ok3, 'python-view/flatten_one_level', 'tree_flatten_one_level uses the same registration as the engine', dict(ident, step=step, type=tn, ns=ns), lambda: dict(got=got, err=repr(err), want=want_log))
    sink.count('observations')


def run_history(sink, ops, warn_error, tag):
    h = History()
    ident = dict(history=[list(map(str, o)) for o in ops], warnings_as_errors=warn_error, kind=tag)
    try:
        with warnings.catch_warnings():
            warnings.simplefilter('error' if warn_error else 'ignore')
            for step, op in enumerate(ops):
                want, key = model_step(h, op, warn_error)
                try:
                    res = apply_op(h, op)
                    got, exc = 'ok', None
                except Exception as e:  # noqa: BLE001
                    got, exc = 'raise', e
                mech = f'{op[0]}/{op[1] if op[1] in ("N", "SS", "B", "NONCLASS") else "cls"}/warn={"error" if warn_error else "off"}'
                sink.check(got == want, f'step-outcome/{mech}', 'a step succeeds or fails as the model predicts', dict(ident, step=step), lambda: dict(got=got, want=want, exc=repr(exc), model=h.regs))
                if exc is not None and type(exc).__name__ in ('SystemError', 'InternalError'):
                    sink.violation(f'step-internal-error/{mech}', 'failures are reported with a documented exception, never an internal error', dict(ident, step=step), repr(exc))
                if want == 'ok':
                    # trust the model for the expected state; the observation below detects any divergence
                    if op[0] == 'unreg':
                        h.regs.pop(key, None)
                    else:
                        h.regs[key] = res if got == 'ok' else ('lost', step)
                        if op[0] == 'dc':
                            h.decorated = True
                sink.count(f'steps:{want}')
                with warnings.catch_warnings():
                    warnings.simplefilter('ignore')
                    observe(sink, h, ident, step)
    finally:
        cleanup(sink, h, ident)
    sink.case(harness.fp(ops, warn_error), len(ops) >= 2, ident if len(sink.samples) < 3 or len(ops) > 3 else None)


def cleanup(sink, h, ident):
    """Drop everything this history registered (engine and python side), then verify the shared types."""
    from optree import registry as R

    with warnings.catch_warnings():
        warnings.simplefilter('ignore')
        for tn, t in h.types.items():
            if tn == 'B':
                continue
            for ns in ('', 'a', 'b'):
                try:
                    _C.unregister_node(t, ns)
                except Exception:  # noqa: BLE001
                    pass
                R._NODETYPE_REGISTRY.pop((ns, t) if ns else t, None)
        e = optree.register_pytree_node.get(StructSeq, namespace='a')
        ok = e is not None and e.kind == optree.PyTreeKind.STRUCTSEQUENCE and optree.tree_structure(StructSeq((1, 2))).kind == optree.PyTreeKind.STRUCTSEQUENCE
        if not ok:
            sink.violation('harness/cleanup-failed', 'shared types restored', ident, repr(e))


def builtin_sweep(sink):
    """Every built-in node type x every namespace: never re-registered, never unregistered, and the failed attempts change nothing."""
    from collections import OrderedDict, defaultdict, deque

    samples = {tuple: (1, 2), list: [1, 2], dict: {'b': 1, 'a': 2}, OrderedDict: OrderedDict(b=1, a=2), defaultdict: defaultdict(int, b=1, a=2), deque: deque([1, 2], maxlen=3), type(None): None}

    def view():
        out = []
        for t, x in samples.items():
            for ns in ('', 'a', 'zz'):
                for nil in (False, True):
                    leaves, spec = optree.tree_flatten((x,), none_is_leaf=nil, namespace=ns)
                    e = optree.register_pytree_node.get(t, namespace=ns)
                    out.append((t.__name__, ns, nil, repr(spec), len(leaves), None if e is None else (e.kind, e.type, e.namespace)))
        return out

    before = view()
    for t in samples:
        for ns in (GLOBAL, 'a', 'b'):
            for warn_error in (False, True):
                with warnings.catch_warnings():
                    warnings.simplefilter('error' if warn_error else 'ignore')
                    for what, f in (('register', lambda: optree.register_pytree_node(t, lambda o: ((), None, None), lambda m, c: None, namespace=ns)),
                                    ('register-class', lambda: optree.register_pytree_node_class(t, namespace=ns)),
                                    ('unregister', lambda: optree.unregister_pytree_node(t, namespace=ns))):
                        try:
                            f()
                            got = 'accepted'
                        except Exception as e:  # noqa: BLE001
                            got = type(e).__name__
                        ident = dict(type=t.__name__, namespace=repr(ns), op=what, warnings_as_errors=warn_error)
                        sink.check(got not in ('accepted', 'SystemError', 'InternalError'), f'builtin/{what}/{t.__name__}', 'built-in node types can never be re-registered or unregistered', ident, got)
                        now = view()
                        sink.check(now == before, f'builtin/{what}-changed-something/{t.__name__}', 'a failing call leaves the registry (engine and python view) exactly as it was', ident,
                                   lambda: [(a, b) for a, b in zip(before, now) if a != b][:3])
                        if now != before:
                            before = now  # report each divergence once
                        sink.count('builtin-attempts')


def shards(tier, seed):
    return [dict(i=i, n=16) for i in range(16)] if tier != 'quick' else [dict(i=i, n=8) for i in range(8)]


def run_shard(sink, tier, seed, shard):
    i0, n = shard['i'], shard['n']
    if i0 == 0:
        sink.guard('harness', 'builtin-sweep', {}, lambda: builtin_sweep(sink))
    full = full_alphabet()
    red = reduced_alphabet()
    jobs = []
    for a in full:
        jobs.append(((a,), 'len1'))
    for a in full:
        for b in full:
            jobs.append(((a, b), 'len2-full'))
    for trip in itertools.product(red, repeat=3):
        jobs.append((trip, 'len3-reduced'))
    if tier != 'quick':
        for quad in itertools.product(red[:10], repeat=4):
            jobs.append((quad, 'len4-reduced'))
    n_samp = harness.scale(300, 20000, tier)
    for k in range(n_samp):
        rng = gen.case_rng(seed, 'c12', k)
        ln = rng.randrange(4, 11)
        jobs.append((tuple(rng.choice(full) for _ in range(ln)), 'sampled'))
    t0 = time.time()
    for j, (ops, tag) in enumerate(jobs):
        if j % n != i0:
            continue
        for warn_error in (False, True):
            run_history(sink, ops, warn_error, tag)
            sink.cell('history', tag, 'warn-error' if warn_error else 'warn-off')
    sink.extra['histories_total'] = len(jobs) * 2
    sink.extra['alphabet'] = len(full)


def finalize(sink, tier, seed):
    sink.require('builtin-attempts', 100)
    sink.require('observations', 1000)
    sink.require('steps:ok', 100)
    sink.require('steps:raise', 100)
    sink.max_samples = 8
