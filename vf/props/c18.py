"""C18 - the Python twins of engine logic give the same answers as the engine."""
from __future__ import annotations

import gc
import json
import os
import random
import subprocess
import sys
from collections import namedtuple

import optree
import optree.typing as OT
import optree.utils

from vf import gen, harness, refmodel, same
from vf import universe as U

LEVEL = 'exploration'
RULE = (
    '(1) generated class universe (namedtuple subclasses, look-alikes missing exactly one trait: _fields absent / list / non-str / str-subclass / '
    'tuple-subclass, _make / _asdict absent or non-callable; struct-sequence look-alikes with int / bool / int-subclass / missing n_* attributes; '
    'real struct sequences; non-classes; instances) through the 8 classification functions: bound C++ implementation vs __python_implementation__; '
    '(2) the same queries in a fresh interpreter, in shuffled order, after > 4096 live classes filled the caches, and across thousands of '
    'transient classes with measured address reuse; (3) total_order_sorted vs the engine order on generated key lists (mixed, partially ordered, '
    'unorderable, sorts failing half-way); (4) tree_flatten_one_level vs the engine view for every node of generated trees x namespace x dict '
    'mode. distinct = distinct class trait vectors / key lists / nodes; non-trivial = class has >= 1 deviating trait or list has >= 3 keys of >= 2 types'
)
ASSUMPTIONS = [
    'classes are not mutated after they were classified (the caches assume that); not generated, reported as an observation',
    'address reuse is measured: id(cls) seen before with a different expected answer; zero reuses would make the churn clause inconclusive',
]


def shards(tier, seed):
    n = 1 if tier == 'quick' else 8
    return [dict(i=i, n=n) for i in range(n)]


class StrSub(str):
    pass


class TupSub(tuple):
    pass


class IntSub(int):
    pass


FIELDS_OPTS = ('absent', 'tuple', 'list', 'nonstr', 'strsub', 'tupsub', 'empty', 'none')
CALL_OPTS = ('callable', 'absent', 'noncallable', 'classmethod')
NF_OPTS = ('absent', 'int', 'bool', 'intsub', 'str')


def make_class(rng, idx):
    """Return (cls, trait description)."""
    base = rng.choice(['tuple', 'tuple', 'namedtuple', 'namedtuple', 'object', 'list', 'ntsub'])
    traits = dict(base=base)
    ns = {}
    if base == 'namedtuple':
        bases = (namedtuple(f'B{idx}', ['a', 'b'][: rng.randrange(0, 3)]),)
        ns['__slots__'] = ()
    elif base == 'ntsub':
        bases = (U.Point,)
    elif base == 'tuple':
        bases = (tuple,)
    elif base == 'list':
        bases = (list,)
    else:
        bases = (object,)
    f = rng.choice(FIELDS_OPTS) if rng.random() < 0.7 else 'inherit'
    traits['_fields'] = f
    if f == 'tuple':
        ns['_fields'] = ('x', 'y')
    elif f == 'list':
        ns['_fields'] = ['x', 'y']
    elif f == 'nonstr':
        ns['_fields'] = ('x', 1)
    elif f == 'strsub':
        ns['_fields'] = ('x', StrSub('y'))
    elif f == 'tupsub':
        ns['_fields'] = TupSub(('x', 'y'))
    elif f == 'empty':
        ns['_fields'] = ()
    elif f == 'none':
        ns['_fields'] = None
    for attr in ('_make', '_asdict'):
        o = rng.choice(CALL_OPTS) if rng.random() < 0.6 else 'inherit'
        traits[attr] = o
        if o == 'callable':
            ns[attr] = lambda *a, **k: None
        elif o == 'noncallable':
            ns[attr] = 42
        elif o == 'classmethod':
            ns[attr] = classmethod(lambda cls, *a: None)
        elif o == 'absent' and base in ('namedtuple', 'ntsub'):
            ns[attr] = property(lambda self: (_ for _ in ()).throw(AttributeError(attr)))  # instance-level only; class attr stays
            traits[attr] = 'property'
    for attr in ('n_fields', 'n_sequence_fields', 'n_unnamed_fields'):
        o = rng.choice(NF_OPTS) if rng.random() < 0.35 else 'absent'
        traits[attr] = o
        if o == 'int':
            ns[attr] = 2
        elif o == 'bool':
            ns[attr] = True
        elif o == 'intsub':
            ns[attr] = IntSub(2)
        elif o == 'str':
            ns[attr] = '2'
    if rng.random() < 0.15:
        # instance-level attribute lookup answers differently from the class (the engine reads the TYPE's attributes)
        traits['instance_lookup'] = 'getattribute-override'

        def ga(self, name):
            if name == '_fields':
                return ('shadow', 'ed')
            if name in ('_make', '_asdict') and False:
                return None
            return object.__getattribute__(self, name)

        ns['__getattribute__'] = ga
    try:
        cls = type(f'G{idx}', bases, ns)
    except TypeError:
        cls = type(f'G{idx}', (tuple,), {})
        traits = dict(base='tuple-fallback')
    return cls, traits


FUNCS = ('is_namedtuple', 'is_namedtuple_instance', 'is_namedtuple_class', 'namedtuple_fields', 'is_structseq', 'is_structseq_instance', 'is_structseq_class', 'structseq_fields')


def call(f, x):
    try:
        return ('ok', f(x))
    except Exception as e:  # noqa: BLE001
        return ('exc', type(e).__name__)


def answers(x, which):
    out = {}
    for name in FUNCS:
        fn = getattr(OT, name)
        impl = fn.__cxx_implementation__ if which == 'cxx' else fn.__python_implementation__
        out[name] = call(impl, x)
    return out


def jsonable_answers(a):
    return {k: [v[0], list(v[1]) if isinstance(v[1], tuple) else v[1]] for k, v in a.items()}


def instance_of(cls):
    for args in ((), ((1, 2),), (1, 2), ([1, 2],)):
        try:
            return cls(*args)
        except Exception:  # noqa: BLE001
            continue
    return None


def classify_case(sink, rng, idx, tag):
    cls, traits = make_class(rng, idx)
    subjects = [('class', cls)]
    inst = instance_of(cls)
    if inst is not None:
        subjects.append(('instance', inst))
        inst2 = instance_of(cls)
        if inst2 is not None and hasattr(inst2, '__dict__'):
            # an instance that carries its own _fields / _make / _asdict in its __dict__, shadowing the class attributes
            try:
                inst2.__dict__['_fields'] = rng.choice([('y', 'x'), ['x', 'y'], None, ('x',), 7])
                if rng.random() < 0.5:
                    inst2.__dict__['_make'] = 42
                if rng.random() < 0.5:
                    inst2.__dict__['_asdict'] = None
                subjects.append(('instance-own-attrs', inst2))
                sink.count('instances-with-own-attrs')
            except Exception:  # noqa: BLE001
                pass
    for what, x in subjects:
        cx = answers(x, 'cxx')
        py = answers(x, 'python')
        for name in FUNCS:
            sink.check(cx[name] == py[name], f'classify/{name}/{what}/{_dev(traits)}', 'the C++ implementation and the pure-Python implementation agree', dict(traits=traits, subject=what, func=name, phase=tag),
                       lambda: dict(cxx=cx[name], python=py[name]))
    sink.count('classified')
    deviating = sum(1 for k, v in traits.items() if v not in ('inherit', 'absent', 'callable', 'tuple', 'namedtuple', 'object'))
    sink.case(harness.fp('cls', sorted(traits.items())), deviating >= 1, dict(traits=traits, phase=tag) if idx % 500 == 0 else None)
    return cls, traits


def _dev(traits):
    """Mechanism key: the deviating traits (not random values)."""
    dev = [f'{k}={v}' for k, v in sorted(traits.items()) if k != 'base' and v not in ('inherit', 'absent', 'callable')]
    return traits.get('base', '?') + ':' + ','.join(dev[:3])


FIXED_SUBJECTS = None


def fixed_subjects():
    import time

    subs = [U.Point, U.Empty, U.Typed, U.PointSub, U.FakeNT, U.TupleSub, tuple, list, int, type, object, os.terminal_size, time.struct_time, os.stat_result, type(sys.flags), type(sys.version_info),
            U.Point(1, 2), os.terminal_size((1, 2)), sys.flags, sys.version_info, (1, 2), [1], None, 5, 'x', U.FakeNT((1, 2)), namedtuple, OT.structseq, OT.NamedTuple]
    return subs


def history_independence(sink, seed, tier):  # noqa: C901
    rng = random.Random(f'{seed}:c18hist')
    n_a = 300
    # (1) query a deterministic class set
    classes = []
    for i in range(n_a):
        r = random.Random(f'{seed}:c18cls:{i}')
        classes.append(make_class(r, i))
    first = [jsonable_answers(answers(c, 'cxx')) for c, _ in classes]
    fixed_first = [jsonable_answers(answers(x, 'cxx')) for x in fixed_subjects()]
    # (a) fresh interpreter
    code = (
        'import json,random,sys\n'
        'from vf.props import c18\n'
        f'seed={seed}\n'
        'out=[]\n'
        f'for i in range({n_a}):\n'
        '    r=random.Random(f"{seed}:c18cls:{i}")\n'
        '    cls,_=c18.make_class(r,i)\n'
        '    out.append(c18.jsonable_answers(c18.answers(cls,"cxx")))\n'
        'fx=[c18.jsonable_answers(c18.answers(x,"cxx")) for x in c18.fixed_subjects()]\n'
        'json.dump([out,fx],sys.stdout)\n'
    )
    p = subprocess.run([sys.executable, '-c', code], capture_output=True, text=True, timeout=600)
    if p.returncode != 0:
        sink.violation('fresh-interpreter/died', 'fresh interpreter classification', dict(rc=p.returncode), p.stderr[-1500:])
    else:
        fresh, fx = json.loads(p.stdout)
        bad = [i for i in range(n_a) if fresh[i] != json.loads(json.dumps(first[i]))]
        sink.check(not bad, 'history/fresh-interpreter', 'answers do not depend on what was classified before (fresh interpreter)', dict(phase='fresh'), lambda: [(classes[i][1], fresh[i], first[i]) for i in bad[:3]])
        sink.check(fx == json.loads(json.dumps(fixed_first)), 'history/fresh-interpreter-fixed', 'fixed subjects classify identically in a fresh interpreter', dict(phase='fresh'))
        sink.count('fresh-interpreter-queries', n_a)
    # (b) shuffled order
    order = list(range(n_a))
    rng.shuffle(order)
    for i in order:
        again = jsonable_answers(answers(classes[i][0], 'cxx'))
        sink.check(again == first[i], 'history/shuffled', 'answers do not depend on query order', dict(phase='shuffled', traits=classes[i][1]), lambda: (again, first[i]))
    # (b2) transient churn while the caches still have room (a stale entry left behind by a collected
    #      class would be hit by the next class allocated at the same address)
    churn(sink, seed, harness.scale(2500, 50000, tier), 'c18prechurn', 60_000)
    # (c) > 4096 live classes fill the caches; then new classes (not cacheable) and old ones
    live = []
    for i in range(4300):
        r = random.Random(f'{seed}:c18live:{i}')
        cls, tr = make_class(r, 10_000 + i)
        live.append(cls)
        cx, py = answers(cls, 'cxx'), answers(cls, 'python')
        if cx != py:
            for name in FUNCS:
                sink.check(cx[name] == py[name], f'classify/{name}/class/{_dev(tr)}', 'the C++ implementation and the pure-Python implementation agree', dict(traits=tr, phase='fill'), lambda: (cx[name], py[name]))
    sink.count('live-classes-filling-caches', len(live))
    for i in range(300):
        classify_case(sink, random.Random(f'{seed}:c18over:{i}'), 20_000 + i, 'cache-full')
    for i in order[:150]:
        again = jsonable_answers(answers(classes[i][0], 'cxx'))
        sink.check(again == first[i], 'history/after-cache-full', 'answers are stable after the caches overflowed', dict(phase='cache-full', traits=classes[i][1]), lambda: (again, first[i]))
    del live
    gc.collect()
    # (d) transient churn with measured address reuse (after the caches overflowed)
    churn(sink, seed, harness.scale(4000, 100000, tier), 'c18churn', 30_000)
    instance_churn(sink, harness.scale(3000, 60000, tier))
    sink.extra['address_reuse'] = dict(reuses=sink.counters.get('address-reuses', 0), with_different_expected_answer=sink.counters.get('address-reuses-with-different-answer', 0))


def churn(sink, seed, n_churn, tag, base):
    seen = {}
    reuses = 0
    reuses_diff = 0
    for i in range(n_churn):
        r = random.Random(f'{seed}:{tag}:{i}')
        cls, tr = make_class(r, base + i)
        py = answers(cls, 'python')
        cx = answers(cls, 'cxx')
        key = id(cls)
        sig = json.dumps(jsonable_answers(py), sort_keys=True)
        if key in seen:
            reuses += 1
            if seen[key] != sig:
                reuses_diff += 1
                stale = cx != py
                sink.check(not stale, f'history/address-reuse/{_dev(tr)}', 'a class created at the address of a collected class is classified afresh', dict(phase=tag, traits=tr), lambda: (cx, py))
        seen[key] = sig
        if cx != py:
            for name in FUNCS:
                sink.check(cx[name] == py[name], f'classify/{name}/class/{_dev(tr)}', 'the C++ implementation and the pure-Python implementation agree', dict(traits=tr, phase=tag), lambda: (cx[name], py[name]))
        del cls
    sink.count('churn-classes', n_churn)
    sink.count('address-reuses', reuses)
    sink.count('address-reuses-with-different-answer', reuses_diff)


def instance_churn(sink, n):
    """Instances of short-lived classes with alternating verdicts, classified back to back through the INSTANCE entry points only (nothing of
    another type is classified in between): a class created at the address of a collected one must be classified afresh."""
    import collections
    import gc

    last = {}
    reuses = 0
    for i in range(n):
        kind = ('nt', 'plain', 'nt-lookalike', 'plain')[i % 4] if (i // 7) % 2 else ('plain', 'nt')[i % 2]
        if kind == 'nt':
            cls = collections.namedtuple(f'IC{i}', ['a', 'b'])
            inst, want = cls(1, 2), True
        elif kind == 'nt-lookalike':
            cls = type(f'ICL{i}', (tuple,), {'_fields': ('a', 'b'), '_make': None, '_asdict': None})
            inst, want = cls((1, 2)), False
        else:
            cls = type(f'ICP{i}', (tuple,), {})
            inst, want = cls((1, 2)), False
        addr = id(cls)
        if addr in last and last[addr] != want:
            reuses += 1
        try:
            got = optree.is_namedtuple_instance(inst)
        except Exception as e:  # noqa: BLE001
            got = repr(e)
        ok_fields = True
        if got is True and want is True:
            ok_fields = optree.namedtuple_fields(inst) == ('a', 'b')
        sink.check(got is want and ok_fields, f'history/instance-address-reuse/{kind}', 'an instance of a class created at the address of a collected class is classified afresh', dict(i=i, kind=kind, reused=addr in last),
                   lambda: dict(got=got, want=want, previous_at_address=last.get(addr)))
        last[addr] = want
        del cls, inst
        if i % 3 == 0:
            gc.collect()
    sink.count('instance-churn', n)
    sink.count('instance-address-reuses-with-different-answer', reuses)


def sort_case(sink, seed, idx):
    rng = gen.case_rng(seed, 'c18sort', idx)
    style = gen.KEY_STYLES[(idx // 3) % len(gen.KEY_STYLES)] if idx % 3 else ('nan_mixed', 'fs_mixed', 'tie_mixed')[(idx // 3) % 3]
    n = rng.choice([0, 1, 2, 3, 5, 8, 13, 40, 70]) if idx % 3 else rng.randrange(4, 14)
    keys = gen.gen_keys(rng, n, style)
    if rng.random() < 0.3:
        keys += gen.gen_keys(rng, rng.randrange(1, 6), rng.choice(gen.KEY_STYLES))
        # drop duplicates across styles (dict keys must be distinct)
        uniq = []
        for k in keys:
            try:
                if not any(k is u or k == u for u in uniq):
                    uniq.append(k)
            except Exception:  # noqa: BLE001
                uniq.append(k)
        keys = uniq
    ident = dict(gen='c18sort', seed=seed, index=idx, style=style, keys=repr(keys)[:300])
    want = optree.utils.total_order_sorted(keys)
    d = dict.fromkeys(keys, 0)
    if len(d) != len(keys):
        return
    got1 = optree.tree_structure(d).entries()
    leaf = optree.treespec_leaf()
    got2 = optree.treespec_dict({k: leaf for k in keys}).entries()
    got3 = list(optree.tree_flatten_one_level(d).entries)
    same_ = lambda a, b: len(a) == len(b) and all(x is y for x, y in zip(a, b))  # noqa: E731
    stage = refmodel.total_order(keys)[1]
    sink.check(same_(got1, want), f'sort-twin/flatten/stage{stage}', 'the engine orders dict keys like optree.utils.total_order_sorted', ident, lambda: (got1, want))
    sink.check(same_(got2, want), f'sort-twin/treespec_dict/stage{stage}', 'treespec_dict orders keys like total_order_sorted', ident, lambda: (got2, want))
    sink.check(same_(got3, want), f'sort-twin/one_level/stage{stage}', 'tree_flatten_one_level orders keys like total_order_sorted', ident, lambda: (got3, want))
    sink.count(f'sort-lists:stage{stage}')
    sink.count(f'sort-style:{style}')
    types = {type(k) for k in keys}
    sink.case(harness.fp('sort', repr(keys)), len(keys) >= 3 and len(types) >= 2, ident if idx % 300 == 0 else None)


class NormNT(U.Point):
    """namedtuple subclass whose constructor normalises (idempotently): y is always kept in a 1-tuple."""

    __slots__ = ()

    def __new__(cls, x, y):
        return super().__new__(cls, x, y if type(y) is tuple else (y,))


class CountNT(U.Point):
    """namedtuple subclass whose constructor validates its arguments."""

    __slots__ = ()

    def __new__(cls, x, y):
        if x is None:
            raise ValueError('x must not be None')
        return super().__new__(cls, x, y)


class LookAlike(tuple):
    """has every trait the namedtuple heuristic checks, but the constructor is tuple's own."""

    _fields = ('a', 'b')

    @classmethod
    def _make(cls, it):
        return tuple.__new__(cls, it)

    def _asdict(self):
        return dict(zip(self._fields, self))


def hostile_namedtuple_twin(sink):
    """one-level twin on namedtuple-kind nodes whose constructor is not equivalent to _make:
    rebuild from the node's own children and from fresh ones, engine vs python handler."""
    nodes = [NormNT(U.Leaf(1), U.Leaf(2)), NormNT(U.Leaf(1), (U.Leaf(2), U.Leaf(3))), CountNT(U.Leaf(1), None), LookAlike((U.Leaf(1), U.Leaf(2))), U.Point(U.Leaf(1), U.Leaf(2)), U.Typed(1, 2, 3)]
    for node in nodes:
        for ns in ('', U.NS):
            for nil in (False, True):
                ident = dict(part='hostile-namedtuple', cls=type(node).__name__, ns=ns, nil=nil)
                stop = lambda x, node=node: x is not node  # noqa: E731
                leaves, spec = optree.tree_flatten(node, is_leaf=stop, none_is_leaf=nil, namespace=ns)
                out = optree.tree_flatten_one_level(node, none_is_leaf=nil, namespace=ns)
                for label, kids in (('own', list(out.children)), ('fresh', [U.Leaf(('f', i)) for i in range(len(out.children))]), ('none-first', [None] + [U.Leaf(('g', i)) for i in range(len(out.children) - 1)])):
                    def run(f):
                        try:
                            return ('ok', f())
                        except Exception as e:  # noqa: BLE001
                            return ('exc', type(e).__name__)
                    eng = run(lambda: spec.unflatten(kids) if nil or None not in kids else optree.tree_structure(node, is_leaf=stop, none_is_leaf=True, namespace=ns).unflatten(kids))
                    py = run(lambda: out.unflatten_func(out.metadata, kids))
                    ok = eng[0] == py[0] and (eng[1] == py[1] if eng[0] == 'exc' else same.diff(eng[1], py[1]) is None)
                    sink.check(ok, f'one-level/unflatten/namedtuple-constructor/{type(node).__name__}', 'unflatten_func(metadata, children) equals the engine rebuild', dict(ident, children=label),
                               lambda: (repr(eng)[:200], repr(py)[:200]))
                    sink.count('hostile-namedtuple-rebuilds')


def nodes_of(tree, sh, acc):
    if sh.kind == 'leaf':
        return
    acc.append((tree, sh))
    for j, c in enumerate(sh.children):
        if c.kind != 'leaf':
            nodes_of(refmodel.child_object(tree, sh, j), c, acc)


def only_key_order_differs(node, rebuilt):
    try:
        if type(node) is not type(rebuilt) or len(node) != len(rebuilt):
            return False
        if getattr(node, 'default_factory', None) is not getattr(rebuilt, 'default_factory', None):
            return False
        return all(any(k is k2 or k == k2 for k2 in rebuilt) and rebuilt[k] is node[k] for k in node) and list(node) != list(rebuilt)
    except Exception:  # noqa: BLE001
        return False


def one_level_case(sink, seed, idx):  # noqa: C901
    c = harness.make_case('c18one', seed, idx, size_budget=14)
    opts = gen.all_opts(preds=('none',))
    for o in harness.opts_for(idx, 3, opts):
        with o.ctx():
            ref = refmodel.flatten(c.tree, o.ref())
            acc = []
            nodes_of(c.tree, ref.shape, acc)
            for node, sh in acc[:12]:
                ident = dict(c.ident(), opt=repr(o), node_kind=sh.kind, node_type=getattr(sh.type, '__name__', str(sh.type)))
                stop = lambda x, node=node: x is not node  # noqa: E731
                try:
                    leaves, spec = optree.tree_flatten(node, is_leaf=stop, none_is_leaf=o.none_is_leaf, namespace=o.namespace)
                    out = optree.tree_flatten_one_level(node, none_is_leaf=o.none_is_leaf, namespace=o.namespace)
                except Exception as e:  # noqa: BLE001
                    sink.violation(f'one-level/raises/{sh.kind}', 'one-level flatten of a node works in both implementations', ident, repr(e))
                    continue
                sink.check(len(out.children) == len(leaves) and all(a is b for a, b in zip(out.children, leaves)), f'one-level/children/{sh.kind}', 'children agree (identity, order)', ident, lambda: (out.children, leaves))
                ents = spec.entries()
                sink.check(len(ents) == len(out.entries) and all(a is b or (type(a) is type(b) and a == b) for a, b in zip(ents, out.entries)), f'one-level/entries/{sh.kind}', 'entries agree', ident, lambda: (ents, out.entries))
                sink.check(out.kind == spec.kind and out.type is spec.type, f'one-level/kind-type/{sh.kind}', 'kind and node type agree', ident, lambda: (out.kind, spec.kind, out.type, spec.type))
                accs = spec.accessors()
                if accs and len(accs[0]) >= 1:
                    eng_cls = type(accs[0][0])
                    py_cls = type(out.path_entry_type(out.entries[0], out.type, out.kind))
                    sink.check(eng_cls is py_cls, f'one-level/path_entry_type/{sh.kind}', 'path entry type agrees with the engine accessor entry class', ident, lambda: (eng_cls, py_cls))
                # metadata: through what unflatten makes of it
                try:
                    a = out.unflatten_func(out.metadata, out.children)
                    b = spec.unflatten(leaves)
                    d = same.diff(a, b)
                    d2 = same.diff(node, a)
                except Exception as e:  # noqa: BLE001
                    d, d2 = repr(e), None
                mech = sh.kind
                if (d is not None or d2 is not None) and sh.kind in ('dict', 'defaultdict') and only_key_order_differs(node, a):
                    # the engine restores the original insertion order of dict keys, the python handler does not
                    mech = f'{sh.kind}-insertion-order-not-restored-by-python-handler'
                sink.check(d is None, f'one-level/unflatten/{mech}', 'unflatten_func(metadata, children) equals the engine rebuild', ident, d)
                sink.check(d2 is None, f'one-level/unflatten-roundtrip/{mech}', 'the python unflatten rebuilds the node (incl. original key order)', ident, d2)
                sink.count('one-level-nodes')
                sink.cell('one-level', sh.kind, o.dict_mode, o.namespace or 'global')
    sink.case(harness.fp('one', c.desc.short()), True, None)


def run_shard(sink, tier, seed, shard):
    i0, step = (shard or {}).get('i', 0), (shard or {}).get('n', 1)
    n_cls = harness.scale(3000, 100000, tier)
    n_sort = harness.scale(6000, 1000000, tier)
    n_one = harness.scale(700, 60000, tier)
    for idx in range(i0, n_cls, step):
        sink.guard('harness', 'classify', dict(index=idx), lambda: classify_case(sink, gen.case_rng(seed, 'c18', idx), idx, 'plain'))
    for x in fixed_subjects():
        cx, py = answers(x, 'cxx'), answers(x, 'python')
        for name in FUNCS:
            sink.check(cx[name] == py[name], f'classify/{name}/fixed', 'the C++ and Python implementations agree on fixed subjects', dict(subject=repr(x)[:80], func=name), lambda: (cx[name], py[name]))
    if i0 == 0:
        sink.guard('harness', 'history', {}, lambda: history_independence(sink, seed, tier))
        sink.guard('harness', 'hostile-namedtuple', {}, lambda: hostile_namedtuple_twin(sink))
    for idx in range(i0, n_sort, step):
        sink.guard('harness', 'sort', dict(index=idx), lambda: sort_case(sink, seed, idx))
    for idx in range(i0, n_one, step):
        sink.guard('harness', 'one-level', dict(index=idx), lambda: one_level_case(sink, seed, idx))


def finalize(sink, tier, seed):
    sink.require('instances-with-own-attrs', 100)
    sink.require('classified', 1000)
    sink.require('fresh-interpreter-queries')
    sink.require('live-classes-filling-caches', 4097)
    sink.require('address-reuses-with-different-answer', 10)
    sink.require('instance-address-reuses-with-different-answer', 10)
    sink.require('sort-lists:stage2')
    sink.require('sort-lists:stage3')
    for st in gen.KEY_STYLES:
        sink.require(f'sort-style:{st}', 5)
    sink.require('one-level-nodes', 500)
    sink.require('hostile-namedtuple-rebuilds')
