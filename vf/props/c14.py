"""C14 - treespecs are immutable values independent of their source tree and registry."""
from __future__ import annotations

import gc
import itertools
import weakref
from collections import OrderedDict, defaultdict, deque

import optree
from optree.registry import __GLOBAL_NAMESPACE as GLOBAL

from vf import gen, harness, refmodel, same
from vf import universe as U
from vf.props.c11 import obs

LEVEL = 'exploration'
RULE = (
    'generated trees (each containing a case-local custom type) x options; the observation vector of the treespec (repr, counts, paths, '
    'accessors, recursive entries, children, unflatten result) is re-read after every step of every order (all 120 permutations in thorough, '
    'sampled in quick) of {mutate every source container, mutate every list a method returned, unregister the custom type, re-register it with '
    'other functions, delete the tree, gc.collect()}; freshness of returned lists; ~40 API calls wrapped in a before/after structural snapshot '
    'of all their inputs; leaf retention by weakref; reference cycles through metadata / keys / entries collected. distinct = distinct '
    '(description, options, action order); non-trivial = >= 2 internal nodes'
)
ASSUMPTIONS = [
    '__getstate__() hands out internal lists; it is not among the inspection methods enumerated by the property and is not gated',
    'snapshots record identity of every container and leaf, key order and metadata (vf.props.c14.snapshot)',
]


def shards(tier, seed):
    n = 1 if tier == 'quick' else 16
    return [dict(i=i, n=n) for i in range(n)]


def snapshot(x, depth=0):
    """Deep structural snapshot: identities, key order, lengths."""
    t = type(x)
    if t in (list, tuple, deque):
        return (t.__name__, id(x), getattr(x, 'maxlen', None), tuple(snapshot(c, depth + 1) for c in x))
    if t in (dict, OrderedDict, defaultdict):
        return (t.__name__, id(x), getattr(x, 'default_factory', None), tuple((id(k), snapshot(v, depth + 1)) for k, v in x.items()))
    if hasattr(t, '_same_parts') and not isinstance(x, type):
        m, ch = x._same_parts()
        return (t.__name__, id(x), repr(m), tuple(snapshot(c, depth + 1) for c in ch))
    if t is optree.functools.partial:
        return ('partial', id(x), id(x.func), snapshot(x.args, depth + 1), snapshot(x.keywords, depth + 1))
    if isinstance(x, tuple):
        return (t.__name__, id(x), None, tuple(snapshot(c, depth + 1) for c in x))
    return ('leaf', id(x))


def mutate_tree(x, rng, seen=None):
    """Mutate every mutable container reachable from x (append / pop / clear / re-key)."""
    seen = seen if seen is not None else set()
    if id(x) in seen:
        return
    seen.add(id(x))
    t = type(x)
    kids = []
    if t is list:
        kids = list(x)
        r = rng.random()
        if r < 0.3:
            x.clear()
        elif r < 0.6:
            x.append('mut')
            x.reverse()
        elif x:
            x.pop(0)
            x.insert(0, 'mut2')
    elif t is deque:
        kids = list(x)
        x.appendleft('mut')
        if rng.random() < 0.5:
            x.clear()
    elif t in (dict, OrderedDict, defaultdict):
        kids = list(x.values())
        r = rng.random()
        if r < 0.3:
            x.clear()
        elif r < 0.6:
            x['__mut__'] = 1
            if t is OrderedDict:
                x.move_to_end('__mut__', last=False)
        elif x:
            k = next(iter(x))
            v = x.pop(k)
            x[('rekeyed', 0)] = v
    elif isinstance(x, tuple):
        kids = list(x)
    elif isinstance(x, (U.CBase,)):
        kids = list(x.kids)
        x.kids.append('mut')
        x.meta = ('mutated-meta',)
        ents = getattr(x, 'ents', None)
        if ents is not None:  # the entries list the flatten function handed to the engine
            ents.reverse()
            ents.append('mut-entry')
            ents[0] = 'mut-entry0'
    elif isinstance(x, U.UDict):
        kids = list(x.data.values())
        x.data['__mut__'] = 1
    for k in kids:
        mutate_tree(k, rng, seen)


def make_local_type(idx, ns):
    """A custom type private to this case, so unregistering it disturbs nothing else."""
    class Loc(U.CBase):
        __slots__ = ('ents',)

    Loc.__name__ = Loc.__qualname__ = f'Loc{idx}'

    def fl(o):
        # hands out the object's OWN children and entries lists (as careless user code does): the treespec must not alias them
        if len(getattr(o, 'ents', ())) != len(o.kids):
            o.ents = [f'e{i}' for i in range(len(o.kids))]
        return o.kids, ('Loc', o.meta), o.ents

    def un(m, c):
        return Loc(c, m[1])

    optree.register_pytree_node(Loc, fl, un, path_entry_type=optree.GetItemEntry, namespace=ns or GLOBAL)
    return Loc, fl, un


ACTIONS = ('mutate-source', 'mutate-returned', 'unregister', 're-register', 'del-tree', 'gc')


def check_case(sink, seed, idx, order):  # noqa: C901
    rng = gen.case_rng(seed, 'c14', idx)
    o = gen.rand_opt(rng, preds=('none', 'none', 'is_list'))
    reg_ns = rng.choice(['', o.namespace])
    Loc, fl, un = make_local_type(idx, reg_ns)
    registered = True
    try:
        desc, prof = gen.gen_desc(rng, gen.PROFILE_NAMES[idx % len(gen.PROFILE_NAMES)], 14)
        sub, mat = gen.materialize(desc, rng)
        tree = [Loc([sub, U.Leaf('x'), {'k': Loc([U.Leaf('y')], meta='inner')}], meta=('m', idx)), sub]
        ident = dict(gen='c14', seed=seed, index=idx, desc=desc.short()[:250], opt=repr(o), reg_ns=reg_ns, order=list(order))
        with o.ctx():
            leaves, spec = optree.tree_flatten(tree, **o.kw())
            nontriv = refmodel.flatten(sub, o.ref()).shape.internal_nodes() >= 1
        base = obs(spec)
        kept = dict(paths=spec.paths(), accessors=spec.accessors(), entries=spec.entries(), children=spec.children(), leaves=leaves)
        # freshness of returned lists
        for name, f in (('paths', spec.paths), ('accessors', spec.accessors), ('entries', spec.entries), ('children', spec.children)):
            a, b = f(), f()
            sink.check(a is not b, f'fresh/{name}', f'{name}() returns a fresh list on each call', ident)
        wr = [weakref.ref(x) for x in leaves if type(x) is U.Leaf][:5]
        holder = dict(tree=tree, leaves=leaves)
        for step, act in enumerate(order):
            if act == 'mutate-source' and holder['tree'] is not None:
                mutate_tree(holder['tree'], rng)
            elif act == 'mutate-returned':
                for k, lst in kept.items():
                    if isinstance(lst, list):
                        if lst and rng.random() < 0.5:
                            lst.reverse()
                            lst.pop()
                        lst.append('junk')
                        if rng.random() < 0.4:
                            lst.clear()
                lst = None
                ents = spec.entries()
                ents.append('junk')
                ents.clear()
                ch = spec.children()
                ch.clear()
                ps = spec.paths()
                ps.clear()
                ac = spec.accessors()
                ac.clear()
                # lists handed out by derived treespecs and by the function forms
                one = spec.one_level()
                for sp_ in ([one] if one is not None else []) + ([spec.child(0), spec.child(-1)] if spec.num_children else []):
                    for lst_ in (sp_.entries(), sp_.children(), sp_.paths(), sp_.accessors()):
                        lst_.append('junk')
                        lst_.reverse()
                for lst_ in (optree.treespec_entries(spec), optree.treespec_children(spec), optree.treespec_paths(spec), optree.treespec_accessors(spec)):
                    lst_.append('junk')
                    del lst_[:1]
                sp_ = lst_ = one = None
            elif act == 'unregister' and registered:
                optree.unregister_pytree_node(Loc, namespace=reg_ns or GLOBAL)
                registered = False
            elif act == 're-register':
                if registered:
                    optree.unregister_pytree_node(Loc, namespace=reg_ns or GLOBAL)
                optree.register_pytree_node(Loc, lambda o_: ((), 'other', None), lambda m, c: 'other', namespace=reg_ns or GLOBAL)
                registered = True
            elif act == 'del-tree':
                holder['tree'] = None
                holder['leaves'] = None
                tree = leaves = sub = None  # noqa: F841
                kept['leaves'] = None
            elif act == 'gc':
                gc.collect()
            now = obs(spec)
            diffk = [k for k in base if base[k] != now[k]]
            sink.check(not diffk, f'obs-after/{act}/' + ','.join(diffk), 'the treespec keeps describing the structure it was created from', dict(ident, step=step, action=act),
                       lambda: {k: (base[k], now[k]) for k in diffk})
        # leaf retention
        if 'del-tree' in order and wr:
            del mat
            gc.collect()
            alive = [w() for w in wr if w() is not None]
            sink.check(not alive, 'leaf-retention', 'the treespec holds no reference to the leaves of its source tree', ident, lambda: alive)
            sink.count('retention-probes')
        sink.cell('order', order[0])
        sink.case(harness.fp(desc.short(), o.key(), order), nontriv, ident)
    finally:
        if registered:
            try:
                optree.unregister_pytree_node(Loc, namespace=reg_ns or GLOBAL)
            except Exception:  # noqa: BLE001
                pass


# ------------------------------------------------------------------ inputs unchanged by API calls
def api_calls(tree, tree2, o, spec, spec2):
    """(name, thunk, inputs) - public operations whose inputs must be left untouched."""
    kw = o.kw()
    leaves = optree.tree_leaves(tree, **kw)
    f = lambda *a: a[0]  # noqa: E731
    calls = [
        ('tree_flatten', lambda: optree.tree_flatten(tree, **kw)),
        ('tree_flatten_with_path', lambda: optree.tree_flatten_with_path(tree, **kw)),
        ('tree_flatten_with_accessor', lambda: optree.tree_flatten_with_accessor(tree, **kw)),
        ('tree_iter', lambda: list(optree.tree_iter(tree, **kw))),
        ('tree_leaves', lambda: optree.tree_leaves(tree, **kw)),
        ('tree_structure', lambda: optree.tree_structure(tree, **kw)),
        ('tree_paths', lambda: optree.tree_paths(tree, **kw)),
        ('tree_accessors', lambda: optree.tree_accessors(tree, **kw)),
        ('tree_is_leaf', lambda: optree.tree_is_leaf(tree, **kw)),
        ('all_leaves', lambda: optree.all_leaves(leaves, **kw)),
        ('tree_map', lambda: optree.tree_map(f, tree, tree, **kw)),
        ('tree_map_', lambda: optree.tree_map_(f, tree, tree, **kw)),
        ('tree_map_with_path', lambda: optree.tree_map_with_path(lambda p, x: x, tree, **kw)),
        ('tree_map_with_accessor', lambda: optree.tree_map_with_accessor(lambda p, x: x, tree, **kw)),
        ('tree_replace_nones', lambda: optree.tree_replace_nones(0, tree, namespace=o.namespace)),
        ('tree_broadcast_prefix', lambda: optree.tree_broadcast_prefix(tree, tree2, **kw)),
        ('broadcast_prefix', lambda: optree.broadcast_prefix(tree, tree2, **kw)),
        ('tree_broadcast_common', lambda: optree.tree_broadcast_common(tree, tree2, **kw)),
        ('broadcast_common', lambda: optree.broadcast_common(tree2, tree, **kw)),
        ('tree_broadcast_map', lambda: optree.tree_broadcast_map(f, tree, tree2, **kw)),
        ('prefix_errors', lambda: optree.prefix_errors(tree, tree2, **kw)),
        ('prefix_errors/rev', lambda: optree.prefix_errors(tree2, tree, **kw)),
        ('tree_reduce', lambda: optree.tree_reduce(lambda a, b: a, tree, None, **kw)),
        ('tree_all', lambda: optree.tree_all(tree, **kw)),
        ('tree_flatten_one_level', lambda: optree.tree_flatten_one_level(tree, none_is_leaf=o.none_is_leaf, namespace=o.namespace)),
        ('unflatten', lambda: spec.unflatten(leaves)),
        ('tree_unflatten', lambda: optree.tree_unflatten(spec, leaves)),
        ('flatten_up_to', lambda: spec.flatten_up_to(tree2)),
        ('flatten_up_to/rev', lambda: spec2.flatten_up_to(tree)),
        ('traverse', lambda: spec.traverse(leaves, lambda n: n, lambda x: x)),
        ('walk', lambda: spec.walk(leaves, lambda t, d, c: c, lambda x: x)),
        ('compose', lambda: spec.compose(spec2)),
        ('transform', lambda: spec.transform(lambda s: s, lambda s: s)),
        # treespecs handed to the operation BY THE CALLBACKS are operands too: pre-built, retained replacement treespecs (one per arity / one leaf
        # replacement) must come back untouched
        ('transform/retained-replacements', lambda: retained_transform(spec, o)),
        ('transform/retained-replacements/other', lambda: retained_transform(spec2, o)),
        ('broadcast_to_common_suffix', lambda: spec.broadcast_to_common_suffix(spec2)),
        ('broadcast_to_common_suffix/rev', lambda: spec2.broadcast_to_common_suffix(spec)),
        ('is_prefix', lambda: (spec.is_prefix(spec2), spec2.is_prefix(spec), spec <= spec2, spec < spec2, spec == spec2)),
        ('hash-repr', lambda: (hash(spec), repr(spec), hash(spec2))),
        ('tree_transpose_map', lambda: optree.tree_transpose_map(lambda x: (x, x), tree, **kw)),
        ('treespec_from_collection', lambda: optree.treespec_from_collection([spec, spec2], none_is_leaf=o.none_is_leaf, namespace=o.namespace)),
        ('treespec_dict', lambda: optree.treespec_dict({'b': spec, 'a': spec2}, none_is_leaf=o.none_is_leaf, namespace=o.namespace)),
        ('pickle', lambda: __import__('pickle').dumps(spec)),
    ]
    return calls, leaves


RETAINED = {}


def retained_transform(spec, o):
    """transform() with callbacks that return memoised treespecs kept by the caller; raises AssertionError if one of them changed."""
    leaf = optree.treespec_leaf(none_is_leaf=o.none_is_leaf)
    memo = RETAINED.setdefault(o.none_is_leaf, {})

    def f_node(s):
        n = s.num_children
        if n not in memo:
            memo[n] = optree.treespec_tuple([leaf] * n, none_is_leaf=o.none_is_leaf)
            memo[n, 'obs'] = obs(memo[n])
        return memo[n]

    leaf_rep = memo.setdefault('leaf', optree.treespec_list([leaf, leaf], none_is_leaf=o.none_is_leaf))
    memo.setdefault(('leaf', 'obs'), obs(leaf_rep))
    out = spec.transform(f_node, lambda s: leaf_rep)
    changed = [k for k in list(memo) if not isinstance(k, tuple) and obs(memo[k]) != memo[k, 'obs']]
    if changed:
        for k in changed:
            del memo[k], memo[k, 'obs']  # report once, then start from fresh replacements
        raise RetainedChanged(f'retained replacement treespec(s) for {changed} changed')
    return out


class RetainedChanged(AssertionError):
    pass


def inputs_case(sink, seed, idx):
    rng = gen.case_rng(seed, 'c14in', idx)
    o = gen.rand_opt(rng, preds=('none', 'none', 'is_list', 'pair'))
    rel = idx % 5
    if rel == 4:
        # dict-heavy pairs with a key mismatch: the error paths of the binary treespec operations
        d1 = gen.TreeGen(rng, gen.Profile('strdicts', {'dict': 4, 'odict': 4, 'ddict': 2, 'list': 1}, max_depth=3, key_styles=('str', 'str', 'int'), leaf_styles=('L',))).tree(10)
    else:
        d1, _ = gen.gen_desc(rng, gen.PROFILE_NAMES[idx % len(gen.PROFILE_NAMES)], 12)
    if rel == 0:
        d2, _ = gen.substitute_leaves(d1, rng, 0.5, 'plain', 4)
    elif rel == 1:
        d2, _ = gen.neutral_edit(d1, rng)
    elif rel == 2:
        d2, _ = gen.breaking_edit(d1, rng)
        d2 = d2 or d1.copy()
    elif rel == 4:
        d2, _ = gen.neutral_edit(d1, rng)
        d2b, _ = gen.breaking_edit(d2, rng, only=('key', 'arity+', 'arity-'))
        d2 = d2b or d2
        if rng.random() < 0.5:
            d1, d2 = d2, d1
    else:
        d2, _ = gen.gen_desc(rng, 'dicts', 8)
    t1, _ = gen.materialize(d1, rng)
    t2, _ = gen.materialize(d2, rng)
    ident = dict(gen='c14in', seed=seed, index=idx, t1=d1.short()[:200], t2=d2.short()[:200], opt=repr(o))
    with o.ctx():
        s1 = optree.tree_structure(t1, **o.kw())
        s2 = optree.tree_structure(t2, **o.kw())
        calls, leaves = api_calls(t1, t2, o, s1, s2)
        for name, thunk in calls:
            before = (snapshot(t1), snapshot(t2), [id(x) for x in leaves], obs(s1), obs(s2))
            try:
                thunk()
                outcome = 'ok'
            except Exception as e:  # noqa: BLE001
                outcome = type(e).__name__
            after = (snapshot(t1), snapshot(t2), [id(x) for x in leaves], obs(s1), obs(s2))
            which = [n for n, a, b in zip(('tree', 'other tree', 'leaves list', 'treespec', 'other treespec'), before, after) if a != b]
            if outcome == 'RetainedChanged':
                which.append('treespec returned by a callback')
            sink.check(not which, f'inputs-unchanged/{name}/' + ','.join(which), 'no operation mutates its input trees, leaf sequences or operand treespecs', dict(ident, call=name, outcome=outcome),
                       lambda: which)
            sink.count(f'api:{outcome}')
    sink.case(harness.fp('inputs', d1.short(), d2.short(), o.key()), True, None)


# ------------------------------------------------------------------ reference cycles
class Holder:
    def __init__(self):
        self.ref = None

    def __eq__(self, other):
        return self is other

    def __hash__(self):
        return id(self) >> 4


CYCLE_ROUTES = ('metadata', 'metadata-childless', 'metadata-nested-childless', 'dict-key', 'entries', 'defaultdict-factory', 'defaultdict-factory-empty', 'original-keys',
                'deque-maxlen-holder', 'ordereddict-key-nested', 'namedtuple-under-custom',
                # one payload object held by SEVERAL nodes of the treespec (each node owns a reference: the collector must be told about every one)
                'shared-metadata-two-nodes', 'namedtuple-class-two-nodes', 'namedtuple-class-five-nodes', 'compose-two-leaves', 'compose-thrice', 'from-collection-twice')


def cycle_case(sink, seed, idx):  # noqa: C901
    """spec -> (metadata | dict key | custom entry | factory) -> ... -> spec must be collected,
    for nodes with and without children, at the root and nested."""
    route = CYCLE_ROUTES[idx % len(CYCLE_ROUTES)]
    h = Holder()
    sentinel = U.Leaf('sentinel')
    h.sentinel = sentinel
    ns = ''
    Loc = None
    fac = None
    pre = None
    if route == 'metadata':
        tree = [U.CSeq([U.Leaf(1)], meta=h), 2]
    elif route == 'metadata-childless':
        tree = U.CSeq([], meta=h)  # a node without children still owns its metadata
    elif route == 'metadata-nested-childless':
        tree = {'a': (U.CSeq([], meta=h), U.CList([], meta=h)), 'b': [1]}
    elif route == 'dict-key':
        tree = OrderedDict([(h, 1), ('b', [2])])
    elif route == 'ordereddict-key-nested':
        tree = [U.CSeq([OrderedDict([(h, OrderedDict())])]), 3]
    elif route == 'entries':
        class Loc(U.CBase):
            __slots__ = ()

        ns = f'cyc{idx}'
        optree.register_pytree_node(Loc, lambda o: (tuple(o.kids), None, (h,) * len(o.kids)), lambda m, c: Loc(c), path_entry_type=optree.GetItemEntry, namespace=ns)
        tree = Loc([U.Leaf(1)])
    elif route in ('defaultdict-factory', 'defaultdict-factory-empty'):
        fac = lambda: 0  # noqa: E731
        fac.h = h
        tree = defaultdict(fac, {'a': 1}) if route == 'defaultdict-factory' else [defaultdict(fac), 1]
    elif route == 'deque-maxlen-holder':
        tree = (deque([U.CSeq([], meta=h)], maxlen=3), deque(maxlen=2))
    elif route == 'namedtuple-under-custom':
        tree = U.CMap([U.Point(U.CSeq([], meta=h), None)], meta=h, names=['p'])
    elif route == 'shared-metadata-two-nodes':
        class Loc(U.CBase):
            __slots__ = ()

        ns = f'cyc{idx}'
        optree.register_pytree_node(Loc, lambda o: (tuple(o.kids), h, None), lambda m, c: Loc(c), namespace=ns)  # the very same metadata object for every node
        tree = [Loc([U.Leaf(1)]), {'k': Loc([])}, Loc([U.Leaf(2), U.Leaf(3)])]
    elif route in ('namedtuple-class-two-nodes', 'namedtuple-class-five-nodes'):
        NT = __import__('collections').namedtuple(f'NTcyc{idx}', ['a', 'b'])
        NT.holder = h  # class -> holder -> treespec -> class
        n_inst = 2 if route.endswith('two-nodes') else 5
        tree = [NT(U.Leaf(i), None) for i in range(n_inst)]
        del NT
    elif route in ('compose-two-leaves', 'compose-thrice', 'from-collection-twice'):
        inner = optree.tree_structure(U.CSeq([U.Leaf(0)], meta=h))
        if route == 'compose-two-leaves':
            pre = optree.tree_structure([0, (0, 0)]).compose(inner)
        elif route == 'compose-thrice':
            pre = optree.tree_structure((0, 0)).compose(optree.tree_structure([0, 0])).compose(inner)
        else:
            pre = optree.treespec_from_collection([inner, inner, inner])
        del inner
        tree = None
    else:
        tree = {h: 1, 'zz': 2}
    spec = pre if tree is None else optree.tree_structure(tree, namespace=ns)
    pre = None
    h.ref = spec  # close the cycle through the treespec's payload
    ws = weakref.ref(sentinel)
    wh = weakref.ref(h)
    ident = dict(gen='c14cyc', index=idx, route=route)
    del tree, spec, h, sentinel
    if Loc is not None:
        optree.unregister_pytree_node(Loc, namespace=ns)
        del Loc
    del fac
    for _ in range(3):
        gc.collect()
    sink.check(ws() is None and wh() is None, f'cycle/{route}', 'treespecs in reference cycles through their payload are reclaimed by the garbage collector', ident, lambda: (ws(), wh()))
    sink.count('cycle-probes')
    sink.count(f'cycle-route:{route}')
    sink.case(harness.fp('cycle', route, idx % 22), True, ident if idx < len(CYCLE_ROUTES) else None)


def failed_op_retention_case(sink, seed, idx):  # noqa: C901
    """Operations that FAIL (mismatching second tree, a callback that raises) must not keep any part of their operands alive either."""
    rng = gen.case_rng(seed, 'c14ret', idx)

    class Box(U.CBase):  # weak-referenceable containers
        __slots__ = ()

    ns = f'c14ret{idx % 7}'
    try:
        optree.register_pytree_node(Box, lambda o: (tuple(o.kids), None, None), lambda m, c: Box(c), namespace=ns)
    except ValueError:
        pass

    def build(mismatch_at):
        """[[Box(a, b), Box(c)], [...], ...] - the branch `mismatch_at` has one child too many; returns (tree, weak refs of everything weakref-able)."""
        refs, rows = [], []
        for r in range(4):
            kids = [U.Leaf((r, j)) for j in range(2 + (1 if r == mismatch_at else 0))]
            inner = Box([U.Leaf((r, 'x')), {'k': U.Leaf((r, 'y'))}])
            row = [Box(kids), inner, (U.Leaf((r, 'z')),)]
            refs += [weakref.ref(x) for x in kids] + [weakref.ref(inner), weakref.ref(row[0]), weakref.ref(inner.kids[0])]
            rows.append(row)
        return rows, refs

    at = rng.randrange(4)
    good, refs_g = build(None)
    bad, refs_b = build(at)
    spec = optree.tree_structure(good, namespace=ns)

    class Boom(Exception):
        pass

    calls = [0]
    fail_at = rng.randrange(1, 10)

    def raising(*a):
        calls[0] += 1
        if calls[0] == fail_at:
            raise Boom
        return a[0]

    ops = [
        ('flatten_up_to', lambda: spec.flatten_up_to(bad)),
        ('tree_map/mismatching-rest', lambda: optree.tree_map(lambda a, b: a, good, bad, namespace=ns)),
        ('tree_map_/mismatching-rest', lambda: optree.tree_map_(lambda a, b: a, good, bad, namespace=ns)),
        ('tree_broadcast_prefix', lambda: optree.tree_broadcast_prefix(good, bad, namespace=ns)),
        ('broadcast_prefix', lambda: optree.broadcast_prefix(good, bad, namespace=ns)),
        ('tree_broadcast_common', lambda: optree.tree_broadcast_common(good, bad, namespace=ns)),
        ('prefix_errors', lambda: optree.prefix_errors(good, bad, namespace=ns)),
        ('tree_map/raising-f', lambda: optree.tree_map(raising, good, good, namespace=ns)),
        ('tree_flatten/raising-predicate', lambda: optree.tree_flatten(bad, is_leaf=lambda x: raising(x) and False, namespace=ns)),
        ('unflatten/raising-iterable', lambda: spec.unflatten(raising(x) for x in optree.tree_leaves(good, namespace=ns))),
        ('tree_iter/abandoned', lambda: next(optree.tree_iter(bad, namespace=ns))),
        ('traverse/raising-f_node', lambda: spec.traverse(optree.tree_leaves(good, namespace=ns), raising, None)),
    ]
    name, op = ops[idx % len(ops)]
    calls[0] = 0
    try:
        op()
        outcome = 'returned'
    except Exception as e:  # noqa: BLE001
        outcome = type(e).__name__
        e = None
    ident = dict(gen='c14ret', seed=seed, index=idx, op=name, mismatch_branch=at, outcome=outcome)
    del good, bad, spec, op, ops
    for _ in range(2):
        gc.collect()
    alive = [r() for r in refs_g + refs_b if r() is not None]
    sink.check(not alive, f'retention-after/{name}', 'nothing optree keeps internally holds a reference to the operands of a call that has returned or failed', ident, lambda: [repr(x)[:60] for x in alive][:6])
    sink.count(f'retention-after:{outcome}')
    sink.count('failed-op-retention-probes')
    del alive
    try:
        optree.unregister_pytree_node(Box, namespace=ns)
    except Exception:  # noqa: BLE001
        pass
    sink.case(harness.fp('ret', name, at), True, ident if idx < 12 else None)


def _snap_arg(x):
    """Shallow snapshot of a constructor argument: type, container metadata, identity and order of keys and values."""
    t = type(x)
    if isinstance(x, dict):
        return (t, getattr(x, 'default_factory', None), [(k if isinstance(k, (str, int)) else id(k), id(v)) for k, v in x.items()])
    if isinstance(x, deque):
        return (t, x.maxlen, [id(v) for v in x])
    if isinstance(x, (list, tuple)):
        return (t, [_snap_arg(v) if isinstance(v, (list, tuple, dict)) else id(v) for v in x])
    return (t, id(x))


def constructor_args_case(sink, seed, idx):  # noqa: C901
    """The treespec constructors take containers of child treespecs: a RETAINED argument (exact dict / OrderedDict / defaultdict / list / deque /
    pairs list, with and without keyword children, keyword names inside and outside the mapping) must come back untouched, and a second treespec
    made from the same argument afterwards must equal the one made from a pristine copy."""
    rng = gen.case_rng(seed, 'c14ctor', idx)
    nil = rng.random() < 0.4
    ns = rng.choice(U.NAMESPACES)
    kwo = dict(none_is_leaf=nil, namespace=ns)
    leaf = optree.treespec_leaf(none_is_leaf=nil)
    pool = [leaf, optree.treespec_tuple([leaf, leaf], **kwo), optree.treespec_none(none_is_leaf=nil), optree.treespec_list([leaf], **kwo),
            optree.treespec_dict({'k': leaf}, **kwo)]
    n = rng.randrange(0, 5)
    keys = rng.sample(['b', 'a', 'zz', 'c', 'x', 'y', 1, 2.5, None, ('t', 1)], n)
    vals = [rng.choice(pool) for _ in range(n)]
    pairs = list(zip(keys, vals))
    str_keys = [k for k in keys if isinstance(k, str)]
    kw_variants = [{}, {'kwonly': rng.choice(pool)}, {'kw1': rng.choice(pool), 'kw0': rng.choice(pool)}]
    if str_keys:
        kw_variants.append({str_keys[0]: rng.choice(pool), 'kw2': leaf})  # a keyword that overrides a key of the mapping
    kws = rng.choice(kw_variants)
    dq_maxlen = rng.choice((None, n, n + 3))
    forms = [
        ('treespec_dict/dict', lambda a: optree.treespec_dict(a, **kwo, **kws), lambda: dict(pairs)),
        ('treespec_dict/OrderedDict', lambda a: optree.treespec_dict(a, **kwo, **kws), lambda: OrderedDict(pairs)),
        ('treespec_dict/defaultdict', lambda a: optree.treespec_dict(a, **kwo, **kws), lambda: defaultdict(list, pairs)),
        ('treespec_dict/pairs', lambda a: optree.treespec_dict(a, **kwo, **kws), lambda: [tuple(p_) for p_ in pairs]),
        ('treespec_ordereddict/OrderedDict', lambda a: optree.treespec_ordereddict(a, **kwo, **kws), lambda: OrderedDict(pairs)),
        ('treespec_ordereddict/dict', lambda a: optree.treespec_ordereddict(a, **kwo, **kws), lambda: dict(pairs)),
        ('treespec_ordereddict/pairs', lambda a: optree.treespec_ordereddict(a, **kwo, **kws), lambda: [tuple(p_) for p_ in pairs]),
        ('treespec_defaultdict/defaultdict', lambda a: optree.treespec_defaultdict(int, a, **kwo, **kws), lambda: defaultdict(list, pairs)),
        ('treespec_defaultdict/dict', lambda a: optree.treespec_defaultdict(list, a, **kwo, **kws), lambda: dict(pairs)),
        ('treespec_defaultdict/OrderedDict', lambda a: optree.treespec_defaultdict(None, a, **kwo, **kws), lambda: OrderedDict(pairs)),
        ('treespec_tuple/list', lambda a: optree.treespec_tuple(a, **kwo), lambda: list(vals)),
        ('treespec_tuple/tuple', lambda a: optree.treespec_tuple(a, **kwo), lambda: tuple(vals)),
        ('treespec_list/list', lambda a: optree.treespec_list(a, **kwo), lambda: list(vals)),
        ('treespec_list/deque', lambda a: optree.treespec_list(a, **kwo), lambda: deque(vals, maxlen=7)),
        ('treespec_deque/deque', lambda a: optree.treespec_deque(a, maxlen=dq_maxlen, **kwo), lambda: deque(vals, maxlen=9)),
        ('treespec_deque/list', lambda a: optree.treespec_deque(a, **kwo), lambda: list(vals)),
        ('treespec_from_collection/dict', lambda a: optree.treespec_from_collection(a, **kwo), lambda: dict(pairs)),
        ('treespec_from_collection/nested', lambda a: optree.treespec_from_collection(a, **kwo), lambda: [dict(pairs), (list(vals), OrderedDict(pairs)), deque(vals, maxlen=8)]),
    ]
    ident0 = dict(gen='c14ctor', seed=seed, index=idx, keys=repr(keys), keywords=sorted(kws), none_is_leaf=nil, namespace=ns)
    for name, ctor, mk in forms:
        arg, pristine = mk(), mk()
        before = _snap_arg(arg)
        try:
            first = ctor(arg)
            outcome = 'ok'
        except Exception as e:  # noqa: BLE001
            first, outcome = None, type(e).__name__
        after = _snap_arg(arg)
        ident = dict(ident0, call=name, outcome=outcome)
        sink.check(after == before, f'ctor-args-unchanged/{name}' + ('/with-keywords' if kws and 'dict' in name.split('/')[0] else ''),
                   'no operation mutates its inputs: a container of child treespecs given to a constructor is left as it was', ident, lambda: (before, after))
        if first is not None:
            try:
                again, ref = ctor(arg), ctor(pristine)
            except Exception as e:  # noqa: BLE001
                sink.check(False, f'ctor-args-reused/{name}/raises', 'a constructor call repeated on the same argument gives the same treespec', ident, type(e).__name__)
            else:
                sink.check(obs(again) == obs(ref) == obs(first), f'ctor-args-reused/{name}', 'a constructor call repeated on the same argument gives the same treespec', ident,
                           lambda: (repr(first)[:200], repr(again)[:200], repr(ref)[:200]))
        sink.count('ctor-arg-probes')
        sink.count(f'api:{outcome}')
    sink.case(harness.fp('ctor', seed, idx), n >= 2, None)


def run_shard(sink, tier, seed, shard):
    i0, step = (shard or {}).get('i', 0), (shard or {}).get('n', 1)
    for idx in range(i0, harness.scale(480, 12000, tier), step):
        sink.guard('harness', 'retention', dict(index=idx), lambda: failed_op_retention_case(sink, seed, idx))
    n_cases = harness.scale(500, 3000, tier)
    n_in = harness.scale(500, 60000, tier)
    n_cyc = harness.scale(110, 2200, tier)
    perms = list(itertools.permutations(ACTIONS[:5])) if tier != 'quick' else None
    k = 0
    for idx in range(i0, n_cases, step):
        if perms is None:
            rng = gen.case_rng(seed, 'c14o', idx)
            orders = []
            for _ in range(4):
                order = list(ACTIONS)
                rng.shuffle(order)
                orders.append(tuple(order))
        else:
            orders = perms[(idx * 7) % len(perms):][:40] + [tuple(ACTIONS)]
        for order in orders:
            k += 1
            sink.guard('harness', 'case', dict(index=idx, order=order), lambda: check_case(sink, seed, idx * 1000 + k, order))
    for idx in range(i0, n_in, step):
        sink.guard('harness', 'inputs', dict(index=idx), lambda: inputs_case(sink, seed, idx))
    for idx in range(i0, n_cyc, step):
        sink.guard('harness', 'cycle', dict(index=idx), lambda: cycle_case(sink, seed, idx))
    for idx in range(i0, harness.scale(400, 40000, tier), step):
        sink.guard('harness', 'ctor-args', dict(index=idx), lambda: constructor_args_case(sink, seed, idx))


def finalize(sink, tier, seed):
    sink.require('oracle:the treespec keeps describing the structure it was created from', 100)
    sink.require('oracle:no operation mutates its input trees, leaf sequences or operand treespecs', 100)
    sink.require('retention-probes')
    sink.require('failed-op-retention-probes', 100)
    sink.require('cycle-probes')
    sink.require('ctor-arg-probes', 1000)
    for r in CYCLE_ROUTES:
        sink.require(f'cycle-route:{r}')
    sink.require('api:ok', 100)
