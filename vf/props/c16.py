"""C16 - no input can make the extension touch invalid memory or overflow the stack.

Deciding oracle: the ASan+UBSan build of the engine (report blocks in the sanitizer log,
deduplicated by kind + first in-repo frame) plus the exit status of journaled worker processes;
a functional oracle for the depth clause.
"""
from __future__ import annotations

import gc
import itertools
import os
import pickle
import random
import sys
from collections import OrderedDict, defaultdict, deque, namedtuple

import optree
import optree._C as _C

from vf import build, gen, harness, runner, sanlog
from vf import universe as U

LEVEL = 'fault_enumeration'
EXHAUSTIVE = True
RULE = (
    '(1) depth: every node kind (and self-referential list/dict, a never-terminating custom flatten) nested to L-1, L, L+1, L+2 '
    '(L = MAX_RECURSION_DEPTH): flatten / flatten_with_path / tree_iter must raise RecursionError at the same smallest depth and every '
    'operation must work at <= L; (2) the complete matrix traversal{flatten, with_path, iter, flatten_up_to, map-with-rest, all_leaves, '
    'broadcast_common, traverse/unflatten with a mutating leaves list, treespec_from_collection} x container{list, dict, OrderedDict, '
    'defaultdict, deque, custom children list} x callback position{predicate, custom flatten of a child, key __lt__ during sort, key __hash__ '
    'during lookup} x mutation{delete before cursor, delete after cursor, clear, grow, replace}; (3) seeded type-confusion calls over every '
    '_C function and PyTreeSpec / PyTreeIter method with a hostile argument pool; all executed on the ASan+UBSan build in journaled workers. '
    'distinct = distinct matrix cells / depth probes / confusion calls; non-trivial = the callback fired (matrix) or the call reached the engine'
)
ASSUMPTIONS = [
    'allowed outcomes: a python exception, or a result that is internally consistent (len(leaves) == num_leaves, the treespec is usable)',
    'disallowed: death by signal, ASan / UBSan report (clang-14, -fsanitize=address,undefined, CPython objects malloc-backed via PYTHONMALLOC=malloc)',
    'red zones miss intra-object overflows and reads of freed-and-reused memory; only code reached by these workloads is judged',
    'malformed __setstate__ payloads are out of scope; pure-python helpers that recurse (prefix_errors) are bounded by the python recursion limit, not by the engine',
]

L = optree.MAX_RECURSION_DEPTH


# ------------------------------------------------------------------------------------ (1) depth
class Endless(U.CBase):
    __slots__ = ()


optree.register_pytree_node(Endless, lambda o: ((Endless(),), None), lambda m, c: Endless(c), namespace='vfdepth')

DEPTH_KINDS = ('list', 'tuple', 'dict', 'ordereddict', 'defaultdict', 'deque', 'namedtuple', 'structseq', 'cseq', 'cmap', 'dc', 'partial', 'mixed')


def nest(kind, n, i=0):
    t = U.Leaf('bottom')
    for j in range(n):
        k = kind if kind != 'mixed' else DEPTH_KINDS[(j + i) % (len(DEPTH_KINDS) - 2)]
        if k == 'list':
            t = [t]
        elif k == 'tuple':
            t = (t,)
        elif k == 'dict':
            t = {'k': t}
        elif k == 'ordereddict':
            t = OrderedDict(k=t)
        elif k == 'defaultdict':
            t = defaultdict(int, k=t)
        elif k == 'deque':
            t = deque([t])
        elif k == 'namedtuple':
            t = U.One(t)
        elif k == 'structseq':
            t = os.terminal_size((t, 0))
        elif k == 'cseq':
            t = U.CSeq([t])
        elif k == 'cmap':
            t = U.CMap([t], names=['a'])
        elif k == 'dc':
            t = U.DCG(p=t)
        elif k == 'partial':
            t = optree.functools.partial(U.rec_fn, t)
            # partial adds two levels (args tuple); handled by measuring, not by assuming
    return t


def outcome(f):
    try:
        return 'ok', f()
    except RecursionError as e:
        return 'RecursionError', e
    except Exception as e:  # noqa: BLE001
        return type(e).__name__, e


def depth_probe(sink, kind, nil, ns):
    """Find the smallest nesting n at which flatten raises; all three traversals must agree; <= limit works everywhere."""
    ident = dict(part='depth', kind=kind, none_is_leaf=nil, ns=ns)
    kw = dict(none_is_leaf=nil, namespace=ns)
    levels_per_wrap = 2 if kind == 'partial' else 1
    base = L // levels_per_wrap
    first = {}
    for n in range(base - 3, base + 4):
        t = nest(kind, n)
        outs = {
            'flatten': outcome(lambda: optree.tree_flatten(t, **kw))[0],
            'flatten_with_path': outcome(lambda: optree.tree_flatten_with_path(t, **kw))[0],
            'tree_iter': outcome(lambda: list(optree.tree_iter(t, **kw)))[0],
            'tree_leaves': outcome(lambda: optree.tree_leaves(t, **kw))[0],
            'tree_structure': outcome(lambda: optree.tree_structure(t, **kw))[0],
        }
        sink.check(len(set(outs.values())) == 1 and set(outs.values()) <= {'ok', 'RecursionError'}, f'depth/parity/{kind}', 'all traversals raise RecursionError at exactly the same depth', dict(ident, n=n), outs)
        for name, o in outs.items():
            if o != 'ok' and name not in first:
                first[name] = n
        sink.count('depth-probes')
        if set(outs.values()) == {'ok'}:
            # at or below the limit: every operation works
            leaves, spec = optree.tree_flatten(t, **kw)
            ops = {
                'unflatten': lambda: spec.unflatten(leaves),
                'paths': lambda: spec.paths(),
                'accessors': lambda: spec.accessors(),
                'repr': lambda: repr(spec),
                'hash': lambda: hash(spec),
                'pickle': lambda: pickle.loads(pickle.dumps(spec)) == spec,
                'compose': lambda: spec.compose(spec).num_leaves,
                'broadcast': lambda: spec.broadcast_to_common_suffix(spec) == spec,
                'is_prefix': lambda: spec.is_prefix(spec) and spec <= spec,
                'children': lambda: (spec.children(), spec.entries(), spec.one_level()),
                'transform': lambda: spec.transform(lambda s: s, lambda s: s) == spec,
                'flatten_up_to': lambda: spec.flatten_up_to(t),
                'tree_map': lambda: optree.tree_map(lambda x, y: x, t, t, **kw),
                'traverse': lambda: spec.traverse(leaves, lambda x: x, lambda x: x),
                'walk': lambda: spec.walk(leaves, lambda a, b, c: c, lambda x: x),
                'tree_broadcast_common': lambda: optree.tree_broadcast_common(t, t, **kw),
                'eq': lambda: spec == optree.tree_structure(t, **kw),
            }
            if n >= base - 1:
                for name, f in ops.items():
                    k, v = outcome(f)
                    sink.check(k == 'ok', f'depth/works-at-limit/{name}/{kind}', 'trees at or below the limit work in every operation', dict(ident, n=n, op=name), lambda: (k, repr(v)[:200]))
                    sink.count('at-limit-operations')
    sink.check(len(set(first.values())) <= 1 and len(first) in (0, 5), f'depth/same-threshold/{kind}', 'flatten, flatten_with_path and the iterator share one depth threshold', ident, first)
    sink.check(bool(first), f'depth/limit-exists/{kind}', 'nesting beyond the limit raises RecursionError', ident, first)
    sink.case(harness.fp('depth', kind, nil, ns), True, dict(ident, threshold=first.get('flatten')))


DEEP_OPS = ('repr', 'paths', 'accessors', 'entries-children', 'hash', 'eq', 'is_prefix', 'unflatten', 'flatten_up_to', 'compose', 'transform', 'broadcast', 'traverse', 'walk', 'pickle',
            'tree_paths-of-unflattened')
DEEP_BUILDS = (('compose', L + 1), ('compose', 4096), ('compose', 1 << 17), ('compose-dict', 1 << 17), ('ctor', L + 1), ('ctor', 3000), ('transform', L + 1))


def deep_spec(how, depth):
    """A treespec nested deeper than any tree that flatten accepts, built through the public treespec API only."""
    leaf = optree.treespec_leaf()
    if how in ('compose', 'compose-dict'):
        one = optree.tree_structure([0] if how == 'compose' else {'k': 0})
        s, d = one, 1
        while d < depth:
            if d * 2 <= depth:
                s, d = s.compose(s), d * 2
            else:
                s, d = s.compose(one), d + 1
        return s
    if how == 'ctor':
        s = leaf
        for _ in range(depth):
            s = optree.treespec_tuple([s])
        return s
    one = optree.tree_structure((0,))
    s = one
    for _ in range(depth - 1):
        s = s.transform(None, lambda _s: one)
    return s


def deep_spec_op(sink, how, depth, op):
    """One treespec method on a treespec deeper than the limit: it returns or raises a Python exception (the runner sees anything else)."""
    if os.environ.get('VERIF_VARIANT') == 'asan':
        depth = min(depth, 1 << 14)  # the sanitizer build only has to see the same code paths; stack exhaustion is the production build's business
    if op == 'repr' and depth > (1 << 14):
        # repr builds the nested string by repeated concatenation: quadratic in the depth (minutes at 2**17), finite - not a subject of this clause
        sink.count('deepspec-skipped:repr-quadratic')
        return
    ident = dict(part='deepspec', build=how, depth=depth, op=op)
    s = deep_spec(how, depth)
    leafobj = U.Leaf('deep')
    f = {
        'repr': lambda: len(repr(s)),
        'paths': lambda: len(s.paths()),
        'accessors': lambda: len(s.accessors()),
        'entries-children': lambda: (s.entries(), len(s.children()), s.child(0).num_nodes, s.one_level().num_nodes),
        'hash': lambda: hash(s) is not None,
        'eq': lambda: s == deep_spec(how, depth),
        'is_prefix': lambda: s.is_prefix(s) and s <= s,
        'unflatten': lambda: type(s.unflatten([leafobj])).__name__,
        'flatten_up_to': lambda: len(s.flatten_up_to(s.unflatten([leafobj]))),
        'compose': lambda: s.compose(s.child(0)).num_nodes,
        'transform': lambda: s.transform().num_nodes,
        'broadcast': lambda: s.broadcast_to_common_suffix(s).num_nodes,
        'traverse': lambda: type(s.traverse([leafobj], lambda x: x, lambda x: x)).__name__,
        'walk': lambda: type(s.walk([leafobj], lambda a, b, c: c, lambda x: x)).__name__,
        'pickle': lambda: pickle.loads(pickle.dumps(s)).num_nodes,
        'tree_paths-of-unflattened': lambda: len(optree.tree_paths(s.unflatten([leafobj]))),
    }[op]
    k, v = outcome(f)
    sink.check(k not in ('SystemError', 'InternalError'), f'deepspec/internal-error/{op}', 'a treespec deeper than the limit makes every method return or raise a documented Python exception', ident, lambda: (k, repr(v)[:200]))
    sink.count(f'deepspec-outcome:{op}:{"ok" if k == "ok" else k}')
    sink.count('deepspec-operations')
    sink.case(harness.fp('deepspec', how, depth, op), True, dict(ident, outcome=k) if depth > 5000 else None)


STALE_HISTORIES = ('unregistered', 're-registered', 're-registered-elsewhere', 'unregistered-by-a-sibling-flatten')
STALE_OPS = ('flatten_up_to', 'tree_map-rest', 'tree_map-first', 'unflatten', 'is_prefix', 'broadcast', 'compose', 'paths-accessors', 'eq-hash-repr', 'pickle', 'transform', 'traverse', 'prefix_errors',
             'tree_broadcast_prefix')


def stale_spec_op(sink, history, op):  # noqa: C901
    """A treespec that outlives the registration of a custom type it mentions, used with objects of exactly that type: every operation
    returns something consistent or raises a Python exception."""
    ident = dict(part='stale', history=history, op=op)
    ns = 'c16stale'

    class St(U.CBase):
        __slots__ = ()

    class Sib(U.CBase):
        __slots__ = ()

    def fl(o):
        return tuple(o.kids), ('St', o.meta), None

    def fl2(o):
        return tuple(reversed(o.kids)), ('St2', o.meta), None

    armed = [False]

    def sib_fl(o):
        if armed[0]:
            armed[0] = False
            try:
                optree.unregister_pytree_node(St, namespace=ns)
            except Exception:  # noqa: BLE001
                pass
        return tuple(o.kids), None, None

    optree.register_pytree_node(St, fl, lambda m, c: St(c, m[1]), namespace=ns)
    optree.register_pytree_node(Sib, sib_fl, lambda m, c: Sib(c), namespace=ns)
    try:
        def mk():
            return [Sib([U.Leaf('s')]), St([U.Leaf(1), (U.Leaf(2), None)], meta='m'), {'k': St([], meta='e')}]

        tree, rest = mk(), mk()
        leaves, spec = optree.tree_flatten(tree, namespace=ns)
        spec2 = optree.tree_structure(rest, namespace=ns)
        if history == 'unregistered':
            optree.unregister_pytree_node(St, namespace=ns)
        elif history == 're-registered':
            optree.unregister_pytree_node(St, namespace=ns)
            optree.register_pytree_node(St, fl2, lambda m, c: St(list(reversed(list(c))), m[1]), namespace=ns)
        elif history == 're-registered-elsewhere':
            optree.unregister_pytree_node(St, namespace=ns)
            optree.register_pytree_node(St, fl2, lambda m, c: St(c, m[1]), namespace=ns + '-other')
        else:
            armed[0] = True  # the type disappears in the middle of the operation, from the flatten function of an earlier sibling
        f = {
            'flatten_up_to': lambda: len(spec.flatten_up_to(rest)),
            'tree_map-rest': lambda: type(optree.tree_map(lambda a, b: a, tree, rest, namespace=ns)).__name__,
            'tree_map-first': lambda: type(optree.tree_map(lambda a: a, rest, namespace=ns)).__name__,
            'unflatten': lambda: type(spec.unflatten(leaves)).__name__,
            'is_prefix': lambda: (spec.is_prefix(spec2), spec <= spec2, spec2.is_suffix(spec)),
            'broadcast': lambda: spec.broadcast_to_common_suffix(spec2).num_nodes,
            'compose': lambda: spec.compose(spec2).num_nodes,
            'paths-accessors': lambda: (len(spec.paths()), len(spec.accessors()), spec.entries(), len(spec.children())),
            'eq-hash-repr': lambda: (spec == spec2, spec == optree.tree_structure(mk(), namespace=ns), hash(spec) == hash(spec2), len(repr(spec))),
            'pickle': lambda: pickle.loads(pickle.dumps(spec)).num_nodes,
            'transform': lambda: spec.transform(lambda s_: s_, lambda s_: s_).num_nodes,
            'traverse': lambda: type(spec.traverse(leaves, lambda x: x, lambda x: x)).__name__,
            'prefix_errors': lambda: len(optree.prefix_errors(tree, rest, namespace=ns)),
            'tree_broadcast_prefix': lambda: type(optree.tree_broadcast_prefix(tree, rest, namespace=ns)).__name__,
        }[op]
        k, v = outcome(f)
        sink.check(k not in ('SystemError', 'InternalError'), f'stale/internal-error/{op}', 'a treespec that outlives a registration makes every operation return or raise a documented Python exception', ident,
                   lambda: (k, repr(v)[:200]))
        sink.count(f'stale-outcome:{history}:{op}:{"ok" if k == "ok" else k}')
        sink.count('stale-operations')
        sink.case(harness.fp('stale', history, op), True, dict(ident, outcome=k))
    finally:
        for cls_, ns_ in ((St, ns), (St, ns + '-other'), (Sib, ns)):
            try:
                optree.unregister_pytree_node(cls_, namespace=ns_)
            except Exception:  # noqa: BLE001
                pass


def depth_cyclic(sink):
    li = []
    li.append(li)
    di = {}
    di['self'] = di
    od = OrderedDict()
    od['s'] = od
    dq = deque()
    dq.append(dq)
    cs = U.CSeq([])
    cs.kids.append(cs)
    for name, t, ns in (('self-list', li, ''), ('self-dict', di, ''), ('self-odict', od, ''), ('self-deque', dq, ''), ('self-custom', cs, ''), ('endless-flatten', Endless(), 'vfdepth')):
        for trav, f in (('flatten', lambda: optree.tree_flatten(t, namespace=ns)), ('flatten_with_path', lambda: optree.tree_flatten_with_path(t, namespace=ns)),
                        ('tree_iter', lambda: list(optree.tree_iter(t, namespace=ns))), ('tree_map', lambda: optree.tree_map(lambda x: x, t, namespace=ns))):
            k, v = outcome(f)
            sink.check(k == 'RecursionError', f'depth/cyclic/{name}/{trav}', 'self-referential containers and endless custom flattens raise RecursionError', dict(part='depth', input=name, traversal=trav), lambda: (k, repr(v)[:200]))
            sink.count('cyclic-probes')
    sink.case(harness.fp('cyclic'), True, dict(part='depth', inputs='self-referential list/dict/odict/deque/custom, endless custom flatten'))
    # break cycles so the worker can exit cleanly
    li.clear()
    di.clear()
    od.clear()
    dq.clear()
    cs.kids.clear()


# ------------------------------------------------------------------------------------ (2) mutation matrix
TRAVERSALS = ('flatten', 'with_path', 'iter', 'flatten_up_to', 'map_rest', 'all_leaves', 'broadcast_common', 'traverse_leaves', 'unflatten_leaves', 'from_collection')
CONTAINERS = ('list', 'dict', 'ordereddict', 'defaultdict', 'deque', 'custom-list')
POSITIONS = ('predicate', 'custom-flatten', 'key-lt', 'key-hash', 'child-dict-key-lt', 'child-dict-key-hash', 'child-metaclass-hook') + tuple(f'{p}@{k}' for p in ('lookup-key-eq', 'spec-key-hash') for k in (0, 2, 5, 6, 8, 11))
TWO_TREE = ('flatten_up_to', 'map_rest', 'broadcast_common')
MUTATIONS = ('del-before', 'del-after', 'clear', 'grow', 'replace')


class MKey:
    """dict key that can run an action from __lt__ or __hash__."""

    __slots__ = ('v', 'on_lt', 'on_hash', 'on_eq')

    def __init__(self, v):
        self.v = v
        self.on_lt = None
        self.on_hash = None
        self.on_eq = None

    def __hash__(self):
        if self.on_hash is not None:
            act, self.on_hash = self.on_hash, None
            if act():  # a counting hook returns True to stay armed
                self.on_hash = act
        return hash(('MKey', self.v))

    def __eq__(self, o):
        if self.on_eq is not None and o is not self:
            act, self.on_eq = self.on_eq, None
            if act():
                self.on_eq = act
        return type(o) is MKey and o.v == self.v

    def __lt__(self, o):
        if self.on_lt is not None:
            act, self.on_lt = self.on_lt, None
            act()
        if type(o) is not MKey:
            return NotImplemented
        return self.v < o.v

    def __repr__(self):
        return f'MKey({self.v})'


class Trig(U.CBase):
    """custom node whose flatten runs an action first."""

    __slots__ = ('action',)


def _trig_flatten(o):
    act = getattr(o, 'action', None)
    if act is not None:
        o.action = None
        act()
    return tuple(o.kids), 'trig', None


optree.register_pytree_node(Trig, _trig_flatten, lambda m, c: Trig(c), namespace='vfmut')


class KidsNode(U.CBase):
    """custom node that hands out its *internal list* as the children iterable."""

    __slots__ = ()


optree.register_pytree_node(KidsNode, lambda o: (o.kids, 'kids', None), lambda m, c: KidsNode(c), namespace='vfmut')
NSM = 'vfmut'


def build_cell(container, position, mutation, element_factory):
    """Returns (tree, cont, fired flag list, predicate or None)."""
    fired = [0]
    n = 6
    fac_leaf = lambda: element_factory(777)  # noqa: E731
    elems = [element_factory(i) for i in range(n)]
    trigger_index = 2
    keys = [MKey(i) for i in range(n)]
    if container == 'list':
        cont = list(elems)
    elif container == 'dict':
        cont = dict(zip(keys, elems))
    elif container == 'ordereddict':
        cont = OrderedDict(zip(keys, elems))
    elif container == 'defaultdict':
        cont = defaultdict(list, zip(keys, elems))
    elif container == 'deque':
        cont = deque(elems)
    else:
        cont = KidsNode(elems)

    def mutate():
        fired[0] += 1
        seq = cont.kids if container == 'custom-list' else cont
        if isinstance(seq, (list, deque)):
            if mutation == 'del-before':
                del seq[0]
            elif mutation == 'del-after':
                del seq[len(seq) - 1]
                if len(seq) > 3:
                    del seq[len(seq) - 1]
            elif mutation == 'clear':
                seq.clear()
            elif mutation == 'grow':
                seq.extend(element_factory(100 + j) for j in range(200))
            else:
                for j in range(len(seq)):
                    seq[j] = element_factory(200 + j)
        else:
            ks = list(seq)
            if mutation == 'del-before':
                del seq[ks[0]]
            elif mutation == 'del-after':
                del seq[ks[-1]]
                if len(ks) > 3:
                    del seq[ks[-2]]
            elif mutation == 'clear':
                seq.clear()
            elif mutation == 'grow':
                for j in range(200):
                    seq[MKey(100 + j)] = element_factory(100 + j)
            else:
                for kk in ks:
                    seq[kk] = element_factory(200)
        gc.collect()

    pred = None
    if position == 'predicate':
        target = elems[trigger_index]

        def pred(x):
            if x is target and not fired[0]:
                mutate()
            return False
    elif position == 'custom-flatten':
        t = Trig([elems[trigger_index]])
        t.action = mutate
        if container == 'list':
            cont[trigger_index] = t
        elif container == 'deque':
            cont[trigger_index] = t
        elif container == 'custom-list':
            cont.kids[trigger_index] = t
        else:
            cont[keys[trigger_index]] = t
    elif position in ('child-dict-key-lt', 'child-dict-key-hash', 'child-metaclass-hook'):
        # the callback comes from *inside a child* of the container (no predicate, no custom node
        # involved): key comparison / hashing of a dict element, or the namedtuple detection of a
        # tuple-subclass element reaching a metaclass attribute hook
        if position == 'child-metaclass-hook':
            class HookMeta(type):
                def __getattr__(cls, name):
                    if not fired[0]:
                        mutate()
                    raise AttributeError(name)

            child = HookMeta('HookTuple', (tuple,), {})((fac_leaf(),))
        else:
            k1, k2, k3 = MKey(901), MKey(900), MKey(902)
            if position == 'child-dict-key-lt':
                k1.on_lt = mutate
                k3.on_lt = mutate
            else:
                k2.on_hash = None
            child = {k1: fac_leaf(), k2: fac_leaf(), k3: fac_leaf()}
            if position == 'child-dict-key-hash':
                k2.on_hash = mutate  # armed after the dict was built: fires at the engine's lookup
        if container in ('list', 'deque'):
            cont[trigger_index] = child
        elif container == 'custom-list':
            cont.kids[trigger_index] = child
        else:
            cont[keys[trigger_index]] = child
    elif position.startswith('twin-child-'):
        if position.endswith('metaclass-hook'):
            child = U.TupleSub((fac_leaf(),))
        else:
            child = {MKey(901): fac_leaf(), MKey(900): fac_leaf(), MKey(902): fac_leaf()}
        if container in ('list', 'deque'):
            cont[trigger_index] = child
        elif container == 'custom-list':
            cont.kids[trigger_index] = child
        else:
            cont[keys[trigger_index]] = child
    elif position == 'key-lt':
        if container in ('dict', 'defaultdict'):
            keys[3].on_lt = mutate
        else:
            return None
    elif position == 'key-hash':
        if container in ('dict', 'defaultdict', 'ordereddict'):
            keys[trigger_index].on_hash = mutate
        else:
            return None
    elif position.startswith('lookup-key-eq@'):
        # the dict being MATCHED against another tree / a treespec: its stored keys' __eq__ run when the engine looks the expected keys up
        # (once per key in the key-set comparison, once more in the child lookups): the k-th such call mutates the dict
        if container in ('dict', 'defaultdict', 'ordereddict'):
            at, seen = int(position.split('@')[1]), [0]

            def counting_eq():
                seen[0] += 1
                if seen[0] - 1 == at and not fired[0]:
                    mutate()
                return True

            for k_ in keys:
                k_.on_eq = counting_eq
        else:
            return None
    elif position.startswith('spec-key-hash@'):
        # armed by run_cell on the keys of the OTHER tree (the ones recorded in the treespec): hashing the expected key mutates the dict under match
        if container not in ('dict', 'defaultdict', 'ordereddict'):
            return None
    return cont, fired, pred, elems, mutate


def run_cell(sink, trav, container, position, mutation, wrap):  # noqa: C901
    ident = dict(part='mutation', traversal=trav, container=container, position=position, mutation=mutation, wrap=wrap)

    def fac(i):
        return U.Leaf(('e', i))

    built = build_cell(container, position, mutation, fac)
    if built is None:
        return False
    cont, fired, pred, elems, mutate = built
    if position.split('@')[0] in ('lookup-key-eq', 'spec-key-hash') and trav not in TWO_TREE:
        return False
    tree = cont if wrap == 'root' else [U.Leaf('pre'), cont, U.Leaf('post')]
    kw = dict(namespace=NSM)
    # a pristine twin for operations that need a second tree / a treespec made beforehand
    twin_built = build_cell(container, 'none' if not position.startswith('child-') else 'twin-' + position, mutation, fac)
    twin = twin_built[0] if wrap == 'root' else [U.Leaf('pre'), twin_built[0], U.Leaf('post')]
    twin_spec = optree.tree_structure(twin, **kw)
    if position.startswith('spec-key-hash@'):
        # the k-th hash of an expected key (the key-set comparison hashes each once, the child lookups once more) mutates the dict under match
        at, seen = int(position.split('@')[1]), [0]

        def counting_hash():
            seen[0] += 1
            if seen[0] - 1 == at and not fired[0]:
                mutate()
            return True

        for k_ in list(twin_built[0]):
            k_.on_hash = counting_hash

    def consistent_flat(leaves, spec):
        if len(leaves) != spec.num_leaves:
            return f'len(leaves)={len(leaves)} != num_leaves={spec.num_leaves}'
        try:
            spec.unflatten(leaves)
            repr(spec), hash(spec), spec.paths()
        except Exception:  # noqa: BLE001
            pass
        return None

    def go():
        if trav == 'flatten':
            lv, sp = optree.tree_flatten(tree, is_leaf=pred, **kw)
            return consistent_flat(lv, sp)
        if trav == 'with_path':
            ps, lv, sp = optree.tree_flatten_with_path(tree, is_leaf=pred, **kw)
            return consistent_flat(lv, sp) or (None if len(ps) == len(lv) else 'paths/leaves length mismatch')
        if trav == 'iter':
            list(optree.tree_iter(tree, is_leaf=pred, **kw))
            return None
        if trav == 'flatten_up_to':
            out = twin_spec.flatten_up_to(tree)
            return None if len(out) == twin_spec.num_leaves else 'flatten_up_to length'
        if trav == 'map_rest':
            optree.tree_map(lambda a, b: a, twin, tree, **kw)
            return None
        if trav == 'all_leaves':
            seq = cont.kids if container == 'custom-list' else cont
            optree.all_leaves(seq if not isinstance(seq, dict) else list(seq.values()) if False else seq, is_leaf=pred, **kw)
            return None
        if trav == 'broadcast_common':
            optree.tree_broadcast_common(tree, twin, is_leaf=pred, **kw)
            return None
        if trav in ('traverse_leaves', 'unflatten_leaves'):
            # the leaves *list* is what gets mutated while the engine iterates over it
            lv, sp = optree.tree_flatten(twin, **kw)
            lst = list(lv)
            state = [0]

            def f_leaf(x):
                state[0] += 1
                if state[0] == 2:
                    fired[0] += 1
                    if mutation == 'del-before':
                        del lst[0]
                    elif mutation == 'del-after':
                        del lst[-1]
                    elif mutation == 'clear':
                        lst.clear()
                    elif mutation == 'grow':
                        lst.extend(range(500))
                    else:
                        lst[:] = [U.Leaf('r')] * len(lst)
                    gc.collect()
                return x

            if trav == 'traverse_leaves':
                sp.traverse(lst, None, f_leaf)
            else:
                class It:
                    def __iter__(s):
                        return s

                    def __next__(s):
                        if not lst:
                            raise StopIteration
                        return f_leaf(lst.pop(0))

                sp.unflatten(It())
            return None
        if trav == 'from_collection':
            leaf = optree.treespec_leaf()
            # the collection of child treespecs is mutated by the custom flatten of the collection itself
            coll = KidsNode([leaf, leaf, leaf, leaf])
            box = Trig([leaf, leaf])
            box.action = lambda: (fired.__setitem__(0, fired[0] + 1), coll.kids.clear() if mutation == 'clear' else coll.kids.extend([leaf] * 100) if mutation == 'grow' else coll.kids.pop())
            optree.treespec_from_collection(box, **kw)
            optree.treespec_from_collection([leaf, optree.tree_structure(tree, is_leaf=pred, **kw)], **kw)
            return None
        raise AssertionError(trav)

    try:
        problem = go()
        out = 'ok'
    except Exception as e:  # noqa: BLE001
        out = type(e).__name__
        problem = None
        if out in ('SystemError', 'InternalError'):
            sink.count(f'observed-internal-error:mutation/{trav}/{container}')
    sink.check(problem is None, f'mutation/inconsistent/{trav}/{container}/{position}/{mutation}', 'a container mutated during traversal leads to a python exception or a consistent result', ident, problem)
    sink.count(f'mutation-outcome:{out}')
    if fired[0]:
        sink.count('mutation-callback-fired')
    sink.cell('matrix', trav, container, position)
    sink.case(harness.fp('mut', trav, container, position, mutation, wrap), bool(fired[0]), dict(ident, outcome=out, fired=fired[0]) if fired[0] else None)
    return True


def matrix_cells():
    cells = []
    for trav in TRAVERSALS:
        for container in CONTAINERS:
            for position in POSITIONS:
                for mutation in MUTATIONS:
                    for wrap in ('root', 'nested'):
                        cells.append((trav, container, position, mutation, wrap))
    return cells



# ------------------------------------------------------------------------------------ (2b) generated mutation
GM_TRAVS = ('flatten', 'with_path', 'with_accessor', 'iter', 'iter-between', 'leaves', 'structure', 'paths', 'accessors', 'one_level', 'all_leaves', 'map', 'map_rest', 'map_rest_rev', 'map_inplace',
            'transpose_map', 'flatten_up_to', 'broadcast_common', 'broadcast_common_rev', 'broadcast_prefix', 'broadcast_map', 'prefix_errors', 'reduce', 'is_leaf',
            'unflatten-list', 'tree_unflatten-list', 'traverse-list', 'walk-list', 'unflatten-list', 'traverse-list')
GM_LEAF_TRAVS = ('unflatten-list', 'tree_unflatten-list', 'traverse-list', 'walk-list')  # here the LEAVES LIST handed to the treespec is what gets mutated
GM_MUTS = ('del-first', 'del-last', 'clear', 'grow', 'replace', 'reorder', 'shrink-to-1', 'nest')
_GM_MUTABLE = (list, dict, OrderedDict, defaultdict, deque)


def _gm_mutate(target, mutation, rng):  # noqa: C901
    """One in-place mutation of a python container (a list, deque or dict kind) somewhere in the tree."""
    if isinstance(target, dict):
        ks = list(target)
        if mutation == 'del-first' and ks:
            del target[ks[0]]
        elif mutation == 'del-last' and ks:
            del target[ks[-1]]
        elif mutation == 'clear':
            target.clear()
        elif mutation == 'grow':
            for j in range(rng.choice((1, 3, 40, 300))):
                target[('grown', j)] = U.Leaf(('g', j))
        elif mutation == 'replace':
            for k_ in ks:
                target[k_] = U.Leaf(('r', 0))
        elif mutation == 'reorder' and ks:
            v = target.pop(ks[0])
            target[ks[0]] = v
        elif mutation == 'shrink-to-1':
            for k_ in ks[1:]:
                del target[k_]
        elif mutation == 'nest':
            for k_ in ks[:2]:
                target[k_] = [target[k_], {('n', 1): U.Leaf('n')}]
    else:
        n = len(target)
        if mutation == 'del-first' and n:
            del target[0]
        elif mutation == 'del-last' and n:
            del target[n - 1]
        elif mutation == 'clear':
            target.clear()
        elif mutation == 'grow':
            try:
                target.extend(U.Leaf(('g', j)) for j in range(rng.choice((1, 3, 40, 300))))
            except Exception:  # noqa: BLE001
                pass
        elif mutation == 'replace':
            for j in range(n):
                target[j] = U.Leaf(('r', j))
        elif mutation == 'reorder' and n:
            if isinstance(target, deque):
                target.rotate(1)
            else:
                target.reverse()
        elif mutation == 'shrink-to-1':
            while len(target) > 1:
                del target[len(target) - 1]
        elif mutation == 'nest':
            for j in range(min(n, 2)):
                target[j] = [target[j], (U.Leaf('n'),)]


def gen_mutation(sink, seed, idx):  # noqa: C901
    """A generated tree (container histories, every node kind of the universe, drawn options); the k-th callback the traversal reaches (predicate,
    custom flatten / unflatten) mutates ONE container anywhere in the tree - an ancestor being walked, the node itself, a sibling not yet
    reached, one already left - then collects garbage. Any exception is fine; a result must be consistent with itself."""
    from vf import same

    cs = harness.make_case('c16gm', seed, idx, size_budget=16)
    rng = cs.rng
    preds = [p_ for p_ in gen.PREDICATES if p_ != 'none']
    opt = gen.rand_opt(rng, preds=preds)
    trav = GM_TRAVS[rng.randrange(len(GM_TRAVS))]
    mutation = GM_MUTS[rng.randrange(len(GM_MUTS))]
    tree = cs.tree
    twin, _ = gen.materialize(cs.desc, random.Random(f'{seed}:c16gm-twin:{idx}'))
    kw = opt.kw()
    ident = dict(cs.ident(), part='generated-mutation', traversal=trav, mutation=mutation, opt=repr(opt))
    subs = same.subobjects(tree, limit=300)
    targets = [x for x in subs if type(x) in _GM_MUTABLE] + [x.kids for x in subs if isinstance(x, U.CBase) and type(x.kids) is list]
    lv0 = sp0 = lst = None
    if trav in GM_LEAF_TRAVS:
        with opt.ctx():
            lv0, sp0 = optree.tree_flatten(twin, **kw)
        lst = list(lv0)
        targets = [lst]
    if not targets:
        sink.count('generated-mutation/no-mutable-container')
        return
    target = targets[rng.randrange(len(targets))]
    state = dict(n=0, at=None, fired=0)

    def fn_tick(node):
        U.tick('f_node', node)
        return node

    def fw_tick(node_type, node_data, children):
        U.tick('f_node', node_type)
        return children

    def fl_tick(x):
        U.tick('f_leaf', x)
        return x

    def hook(site, obj):
        state['n'] += 1
        if state['at'] is not None and state['n'] == state['at'] and not state['fired']:
            state['fired'] = 1
            _gm_mutate(target, mutation, rng)
            gc.collect()

    def flat_ok(leaves, spec):
        if len(leaves) != spec.num_leaves:
            return f'len(leaves)={len(leaves)} != num_leaves={spec.num_leaves}'
        try:
            spec.unflatten(leaves)
            repr(spec), hash(spec)
            if len(spec.paths()) != spec.num_leaves or len(spec.accessors()) != spec.num_leaves:
                return 'paths / accessors of the treespec disagree with num_leaves'
        except Exception:  # noqa: BLE001
            pass
        return None

    f1 = lambda x, *r: x  # noqa: E731

    def go():  # noqa: C901
        if trav == 'flatten':
            return flat_ok(*optree.tree_flatten(tree, **kw))
        if trav == 'with_path':
            ps, lv, sp = optree.tree_flatten_with_path(tree, **kw)
            return flat_ok(lv, sp) or (None if len(ps) == len(lv) else 'paths / leaves length mismatch')
        if trav == 'with_accessor':
            ac, lv, sp = optree.tree_flatten_with_accessor(tree, **kw)
            return flat_ok(lv, sp) or (None if len(ac) == len(lv) else 'accessors / leaves length mismatch')
        if trav == 'iter':
            list(optree.tree_iter(tree, **kw))
        elif trav == 'iter-between':
            # the mutation happens BETWEEN two steps of the lazy iterator (user code runs there as well), at step `at`
            it = optree.tree_iter(tree, **kw)
            j = 0
            for _ in it:
                j += 1
                if state['at'] is not None and j == state['at'] and not state['fired']:
                    state['fired'] = 1
                    _gm_mutate(target, mutation, rng)
                    gc.collect()
            state['n'] = max(state['n'], j)
        elif trav == 'leaves':
            optree.tree_leaves(tree, **kw)
        elif trav == 'structure':
            sp = optree.tree_structure(tree, **kw)
            return flat_ok([0] * sp.num_leaves, sp)
        elif trav == 'paths':
            optree.tree_paths(tree, **kw)
        elif trav == 'accessors':
            optree.tree_accessors(tree, **kw)
        elif trav == 'one_level':
            optree.tree_flatten_one_level(tree, is_leaf=kw['is_leaf'], none_is_leaf=kw['none_is_leaf'], namespace=kw['namespace'])
        elif trav == 'all_leaves':
            optree.all_leaves(target if rng.random() < 0.5 else [tree, tree], **kw)
        elif trav == 'is_leaf':
            optree.tree_is_leaf(tree, **kw)
        elif trav == 'map':
            optree.tree_map(f1, tree, **kw)
        elif trav == 'map_rest':
            optree.tree_map(f1, twin, tree, **kw)
        elif trav == 'map_rest_rev':
            optree.tree_map(f1, tree, twin, tree, **kw)
        elif trav == 'map_inplace':
            optree.tree_map_(f1, tree, tree, **kw)
        elif trav == 'transpose_map':
            optree.tree_transpose_map(lambda x: (x, x), tree, **kw)
        elif trav == 'flatten_up_to':
            out = twin_spec.flatten_up_to(tree)
            return None if len(out) == twin_spec.num_leaves else 'flatten_up_to length'
        elif trav == 'broadcast_common':
            a, b = optree.broadcast_common(tree, twin, **kw)
            return None if len(a) == len(b) else 'broadcast_common lengths differ'
        elif trav == 'broadcast_common_rev':
            a, b = optree.broadcast_common(twin, tree, **kw)
            return None if len(a) == len(b) else 'broadcast_common lengths differ'
        elif trav == 'broadcast_prefix':
            optree.tree_broadcast_prefix(twin, tree, **kw)
        elif trav == 'broadcast_map':
            optree.tree_broadcast_map(f1, tree, twin, **kw)
        elif trav == 'prefix_errors':
            optree.prefix_errors(twin, tree, **kw)
        elif trav == 'reduce':
            optree.tree_reduce(lambda a, b: a, tree, None, **kw)
        elif trav in GM_LEAF_TRAVS:
            # user code reached while the treespec consumes the list (custom unflatten functions, visitors) mutates that list
            lst[:] = lv0
            if trav == 'unflatten-list':
                sp0.unflatten(lst)
            elif trav == 'tree_unflatten-list':
                optree.tree_unflatten(sp0, lst)
            elif trav == 'traverse-list':
                sp0.traverse(lst, fn_tick, fl_tick)
            else:
                sp0.walk(lst, fw_tick, fl_tick)
        else:
            raise AssertionError(trav)
        return None

    with opt.ctx():
        twin_spec = optree.tree_structure(twin, **kw)
        # counting run: how many callbacks does this traversal reach on the pristine tree?
        old = U.HOOK[0]
        U.HOOK[0] = hook
        try:
            try:
                go()
            except Exception:  # noqa: BLE001
                sink.count('generated-mutation/pristine-run-raises')
            K = state['n']
            if K == 0:
                sink.count('generated-mutation/no-callback-reached')
                return
            state.update(n=0, at=rng.randint(1, K))
            try:
                problem = go()
                out = 'ok'
            except Exception as e:  # noqa: BLE001
                out = type(e).__name__
                problem = None
                if out in ('SystemError', 'InternalError'):
                    sink.count(f'observed-internal-error:generated-mutation/{trav}')
        finally:
            U.HOOK[0] = old
    kind = 'leaves-list' if target is lst else type(target).__name__ if not any(target is getattr(x, 'kids', None) for x in subs if isinstance(x, U.CBase)) else 'custom-kids'
    sink.check(problem is None, f'generated-mutation/inconsistent/{trav}/{kind}/{mutation}', 'a container mutated during traversal leads to a python exception or a consistent result', ident, problem)
    sink.count(f'generated-mutation-outcome:{out}')
    sink.count('generated-mutation-calls')
    if state['fired']:
        sink.count('generated-mutation-fired')
        if target is lst:
            sink.count('generated-mutation-fired/leaves-list')
    sink.cell('generated-mutation', trav, kind, mutation)
    sink.case(harness.fp('genmut', seed, idx), bool(state['fired']), dict(ident, outcome=out, k=state['at'], K=K, target=kind) if state['fired'] and idx < 3 else None)


# ------------------------------------------------------------------------------------ (3) type confusion
class RaisingIter:
    def __iter__(self):
        raise KeyError('iter')


class RaisingNext:
    def __iter__(self):
        return self

    def __next__(self):
        raise KeyError('next')


class LyingLen(list):
    def __len__(self):
        return 10**9


class LyingLenShort(list):
    def __len__(self):
        return 0


class RaisingBool:
    def __bool__(self):
        raise KeyError('bool')


class OddBool:
    def __bool__(self):
        return 2  # not a bool: python itself raises TypeError for bool(x)


def pool():
    leaf = optree.treespec_leaf()
    nil = optree.treespec_leaf(none_is_leaf=True)
    big = optree.tree_structure({'a': [1, (2, None)], 'b': U.CSeq([3, 4]), 'c': OrderedDict(x=5)})
    nss = optree.tree_structure(U.CNs([1, 2]), namespace=U.NS)
    it = optree.tree_iter([1, 2, 3])
    return [
        None, True, False, 0, 1, -1, 2**31, 2**63 - 1, 2**63, 2**64 + 1, -2**63 - 1, 1.5, float('nan'), 'str', '', b'b', [], [1], [leaf], (leaf, big), (), {}, {'a': 1}, {'a': leaf}, set(), frozenset(), object(),
        (lambda *a, **k: None), (lambda *a, **k: a), int, list, dict, type(None), U.Point, U.Point(1, 2), os.terminal_size((1, 2)), leaf, nil, big, nss, it, iter([1]), (x for x in [1]),
        RaisingIter(), RaisingNext(), LyingLen([1, 2]), LyingLenShort([1, 2]), deque([1]), OrderedDict(a=1), defaultdict(int), U.CSeq([1]), range(3), range(10**6), 'x' * 100, [None] * 3, optree, _C, big.children(), big.paths(),
        U.Leaf(0), Ellipsis, NotImplemented, 3 + 4j, bytearray(b'x'), memoryview(b'abc'),
        (lambda *a, **k: RaisingBool()), (lambda *a, **k: 'truthy-string'), (lambda *a, **k: 2), (lambda *a, **k: OddBool()),
    ]


def callables():
    out = []
    for name in ('flatten', 'flatten_with_path', 'is_leaf', 'all_leaves', 'make_leaf', 'make_none', 'make_from_collection', 'is_namedtuple', 'is_namedtuple_instance', 'is_namedtuple_class',
                 'namedtuple_fields', 'is_structseq', 'is_structseq_instance', 'is_structseq_class', 'structseq_fields', 'is_dict_insertion_ordered'):
        out.append((f'_C.{name}', getattr(_C, name), None))
    meths = ('unflatten', 'flatten_up_to', 'broadcast_to_common_suffix', 'transform', 'compose', 'traverse', 'walk', 'paths', 'accessors', 'entries', 'entry', 'children', 'child', 'one_level', 'is_leaf',
             'is_one_level', 'is_prefix', 'is_suffix', '__eq__', '__ne__', '__lt__', '__le__', '__gt__', '__ge__', '__hash__', '__repr__', '__len__')
    for m in meths:
        out.append((f'PyTreeSpec.{m}', getattr(optree.PyTreeSpec, m), 'spec'))
    out.append(('PyTreeIter', _C.PyTreeIter, None))
    out.append(('PyTreeIter.__next__', _C.PyTreeIter.__next__, 'iter'))
    out.append(('_C.register_node/invalid', _C.register_node, 'invalid-only'))
    out.append(('_C.unregister_node/invalid', _C.unregister_node, 'invalid-only'))
    return out


def confusion(sink, seed, start, count, progress):
    rng = random.Random(f'{seed}:c16conf')
    P = pool()
    C = callables()
    specs = [p for p in P if isinstance(p, optree.PyTreeSpec)]
    for i in range(start + count):
        name, fn, selfkind = rng.choice(C)
        nargs = rng.choice([0, 1, 1, 2, 2, 3, 4])
        args = [rng.choice(P) for _ in range(nargs)]
        kwargs = {}
        if rng.random() < 0.2:
            kwargs = {rng.choice(['none_is_leaf', 'namespace', 'leaf_predicate', 'strict', 'f_node', 'f_leaf', 'index']): rng.choice(P)}
        if selfkind == 'spec' and rng.random() < 0.85:
            args = [rng.choice(specs)] + args
        elif selfkind == 'iter' and rng.random() < 0.85:
            args = [optree.tree_iter(rng.choice([[1, [2]], {'a': 1}, U.CSeq([1, 2])]))] + args
        elif selfkind == 'invalid-only':
            args = [rng.choice([None, 0, 'x', 1.5, [], object()])] + args[:2]
            kwargs = {}
        if i < start:
            continue
        progress(i)
        try:
            r = fn(*args, **kwargs)
            out = 'ok'
            if isinstance(r, _C.PyTreeIter) or hasattr(r, '__next__'):
                try:
                    for _, _x in zip(range(50), r):
                        pass
                except Exception:  # noqa: BLE001
                    pass
            del r
        except Exception as e:  # noqa: BLE001
            out = type(e).__name__
            if out in ('SystemError', 'InternalError'):
                sink.count(f'observed-internal-error:confusion/{name}')
        sink.count(f'confusion-outcome:{out}')
        sink.count('confusion-calls')
        sink.cell('confusion', name)
        sink.case(harness.fp('conf', i), out != 'TypeError' or True, dict(part='confusion', call=name, args=[type(a).__name__ for a in args], outcome=out) if i % 400 == 0 else None)


# ------------------------------------------------------------------------------------ (3b) mismatched arguments
def mismatch_variants():
    """(kind, well-formed tree, [ill-formed or mismatching variants]) - objects of the *same type* as the
    treespec node that do not have the shape the treespec recorded."""
    L = U.Leaf
    out = []
    out.append(('tuple', (L(1), L(2)), [(L(1),), (L(1), L(2), L(3)), (), U.TupleSub((1, 2))]))
    out.append(('list', [L(1), L(2)], [[L(1)], [], [L(1), L(2), L(3)], U.ListSub([1, 2])]))
    out.append(('dict', {'a': L(1), 'b': L(2)}, [{'a': L(1)}, {}, {'a': 1, 'b': 2, 'c': 3}, {'a': 1, 'c': 2}, U.DictSub(a=1, b=2)]))
    from collections import OrderedDict, defaultdict, deque
    out.append(('ordereddict', OrderedDict(a=L(1), b=L(2)), [OrderedDict(a=1), OrderedDict(), OrderedDict(b=1, c=2), U.ODictSub(a=1, b=2)]))
    out.append(('defaultdict', defaultdict(int, a=L(1), b=L(2)), [defaultdict(int, a=1), defaultdict(list), defaultdict(None, a=1, b=2, c=3)]))
    out.append(('deque', deque([L(1), L(2)], maxlen=4), [deque([1]), deque(), deque([1, 2, 3], maxlen=3), U.DequeSub([1, 2])]))
    short = tuple.__new__(U.Point, (L(1),))
    long_ = tuple.__new__(U.Point, (L(1), L(2), L(3)))
    empty = tuple.__new__(U.Point, ())
    out.append(('namedtuple', U.Point(L(1), L(2)), [short, long_, empty, U.PointSub(1, 2), tuple.__new__(U.PointSub, (1,)), (1, 2), U.FakeNT((1, 2))]))
    import os as _os
    out.append(('structseq', _os.terminal_size((L(1), L(2))), [(1, 2), _os.times_result((1, 2, 3, 4, 5)), U.Point(1, 2)]))
    out.append(('custom', U.CSeq([L(1), L(2)], meta='m'), [U.CSeq([L(1)], meta='m'), U.CSeq([], meta='m'), U.CSeq([1, 2, 3], meta='m'), U.CSeq([1, 2], meta='other'), U.CList([1, 2], meta='m')]))
    out.append(('custom-attr', U.CAttr(L(1), L(2), meta=1), [U.CAttr(1, 2, meta=2), U.CSeq([1, 2])]))
    out.append(('dataclass', U.DCG(p=L(1), q=L(2)), [U.DCG(p=1, q=2, tag='other'), U.DC(1, 2)]))
    out.append(('partial', optree.functools.partial(U.rec_fn, L(1), k=L(2)), [optree.functools.partial(U.rec_fn, 1), optree.functools.partial(U.rec_fn, 1, 2, k=3, j=4), optree.functools.partial(len, 1, k=2)]))
    out.append(('none', None, [(), [], 0]))
    return out


MISMATCH_OPS = {
    'flatten_up_to': lambda spec, t, bad, kw: spec.flatten_up_to(bad),
    'tree_map-rest': lambda spec, t, bad, kw: optree.tree_map(lambda a, b: a, t, bad, **kw),
    'tree_map_-rest-nested': lambda spec, t, bad, kw: optree.tree_map_(lambda a, b: a, [t, (t,)], [bad, (bad,)], **kw),
    'tree_broadcast_prefix': lambda spec, t, bad, kw: optree.tree_broadcast_prefix(t, bad, **kw),
    'broadcast_prefix-rev': lambda spec, t, bad, kw: optree.broadcast_prefix(bad, t, **kw),
    'tree_broadcast_common': lambda spec, t, bad, kw: optree.tree_broadcast_common(t, bad, **kw),
    'tree_broadcast_map': lambda spec, t, bad, kw: optree.tree_broadcast_map(lambda a, b: a, {'x': t}, {'x': bad}, **kw),
    'prefix_errors': lambda spec, t, bad, kw: optree.prefix_errors(t, bad, **kw),
    'flatten-bad': lambda spec, t, bad, kw: (optree.tree_flatten(bad, **kw), optree.tree_flatten_with_path(bad, **kw), list(optree.tree_iter(bad, **kw))),
    'unflatten-bad-spec': lambda spec, t, bad, kw: optree.tree_structure(bad, **kw).unflatten(range(optree.tree_structure(bad, **kw).num_leaves)),
    'spec-relations': lambda spec, t, bad, kw: (spec.is_prefix(optree.tree_structure(bad, **kw)), spec == optree.tree_structure(bad, **kw), spec.broadcast_to_common_suffix(optree.tree_structure(bad, **kw))),
    'transpose': lambda spec, t, bad, kw: optree.tree_transpose(spec, spec, bad),
    'from_collection': lambda spec, t, bad, kw: optree.treespec_from_collection(bad, **kw),
}


def mismatch_cells():
    cells = []
    variants = mismatch_variants()
    for vi, (kind, good, bads) in enumerate(variants):
        for bi in range(len(bads)):
            for op in MISMATCH_OPS:
                for nil in (False, True):
                    cells.append((vi, bi, op, nil))
    return cells


def run_mismatch(sink, vi, bi, op, nil):
    kind, good, bads = mismatch_variants()[vi]
    bad = bads[bi]
    ns = U.NS if kind in ('dataclass',) else ''
    kw = dict(none_is_leaf=nil, namespace=ns)
    spec = optree.tree_structure(good, **kw)
    from vf.verdict import short

    ident = dict(part='mismatch', kind=kind, variant=f'{type(bad).__name__}#{bi}: ' + short(bad, 80), op=op, none_is_leaf=nil)
    try:
        MISMATCH_OPS[op](spec, good, bad, kw)
        out = 'ok'
    except Exception as e:  # noqa: BLE001
        out = type(e).__name__
        if out in ('SystemError', 'InternalError'):
            # an internal error is still a python exception, which is all C16 demands; recorded as an observation
            sink.count(f'observed-internal-error:mismatch/{kind}/{op}')
    sink.count(f'mismatch-outcome:{out}')
    sink.count('mismatch-calls')
    sink.cell('mismatch', kind, op)
    sink.case(harness.fp('mismatch', vi, bi, op, nil), True, dict(ident, outcome=out) if (vi * 7 + bi) % 23 == 0 and op == 'flatten_up_to' else None)


# ------------------------------------------------------------------------------------ journaled driver
def journal_cases(shard):
    tier, seed, n, i = shard['tier'], shard['seed'], shard['n'], shard['i']
    cases = []
    only_depth = shard.get('only_depth', False)
    kinds = DEPTH_KINDS
    for j, kind in enumerate(kinds):
        for nil, ns in ((False, ''), (True, U.NS)) if tier != 'quick' or kind in ('list', 'dict') else ((False, ''),):
            cases.append(dict(part='depth', kind=kind, nil=nil, ns=ns))
    cases.append(dict(part='cyclic'))
    for how, depth in DEEP_BUILDS:
        cases.append(dict(part='deepspec', build=how, depth=depth))
    for hist in STALE_HISTORIES:
        cases.append(dict(part='stale', history=hist))
    if only_depth:
        return [c for j, c in enumerate(cases) if j % n == i]
    cells = matrix_cells()
    chunk = 40
    for a in range(0, len(cells), chunk):
        cases.append(dict(part='matrix', start=a, stop=min(len(cells), a + chunk)))
    mcells = mismatch_cells()
    for a in range(0, len(mcells), 60):
        cases.append(dict(part='mismatch', start=a, stop=min(len(mcells), a + 60)))
    n_gm = harness.scale(3000, 120000, tier)
    for a in range(0, n_gm, 250):
        cases.append(dict(part='genmut', start=a, count=min(250, n_gm - a), seed=seed))
    n_conf = harness.scale(2400, 200000, tier)
    for a in range(0, n_conf, 300):
        cases.append(dict(part='confusion', start=a, count=min(300, n_conf - a), seed=seed))
    return [c for j, c in enumerate(cases) if j % n == i]


def journal_run(sink, case, sub_start, progress):
    sys.setrecursionlimit(20000)
    part = case['part']
    if part == 'depth':
        progress(0)
        depth_probe(sink, case['kind'], case['nil'], case['ns'])
    elif part == 'cyclic':
        progress(0)
        depth_cyclic(sink)
    elif part == 'stale':
        for j in range(sub_start, len(STALE_OPS)):
            progress(j)
            stale_spec_op(sink, case['history'], STALE_OPS[j])
    elif part == 'deepspec':
        for j in range(sub_start, len(DEEP_OPS)):
            progress(j)
            deep_spec_op(sink, case['build'], case['depth'], DEEP_OPS[j])
    elif part == 'matrix':
        cells = matrix_cells()
        for j in range(max(case['start'], case['start'] + sub_start), case['stop']):
            progress(j - case['start'])
            run_cell(sink, *cells[j])
    elif part == 'mismatch':
        mcells = mismatch_cells()
        for j in range(max(case['start'], case['start'] + sub_start), case['stop']):
            progress(j - case['start'])
            run_mismatch(sink, *mcells[j])
    elif part == 'confusion':
        confusion(sink, case['seed'], case['start'] + sub_start, case['count'] - sub_start, lambda i: progress(i - case['start']))
    elif part == 'genmut':
        for j in range(case['start'] + sub_start, case['start'] + case['count']):
            progress(j - case['start'])
            gen_mutation(sink, case['seed'], j)


STALL_S = 40  # journal silence after which a worker is sampled (gdb + CPU time) and restarted


def shards(tier, seed):
    return [None]


def run_shard(sink, tier, seed, shard):  # noqa: C901
    from concurrent.futures import ThreadPoolExecutor

    from vf import run as vrun

    variants = ['asan', 'plain']
    n = 12
    for variant in variants:
        log_path = os.path.join(build.VERIF, '.work', f'c16-{variant}-{os.getpid()}-san')
        env = build.env_for(variant, log_path=log_path if variant == 'asan' else None)

        def one(i, env=env):
            s = type(sink)('x', 'x', 0, 'x')
            deaths = runner.run_journaled(s, 'vf.props.c16', dict(i=i, n=n, tier=tier, seed=seed, only_depth=(variant == 'plain' and tier == 'quick')), env=env, per_worker_timeout=2400, stall_s=STALL_S)
            return s, deaths

        with ThreadPoolExecutor(n) as ex:
            results = list(ex.map(one, range(n)))
        cells = matrix_cells()
        for s, deaths in results:
            vrun._merge(sink, vrun._dump(s))
            for d in deaths:
                case = d['case'] or {}
                if d['rc'] == 'timeout':
                    sink.notes.append(f'worker watchdog fired in {case} sub={d["sub"]}: inconclusive for that case')
                    sink.count('worker-timeouts')
                    continue
                where = dict(case)
                mech = case.get('part', '?')
                if case.get('part') == 'matrix' and d['sub'] is not None:
                    cell = cells[case['start'] + d['sub']]
                    where = dict(part='mutation', traversal=cell[0], container=cell[1], position=cell[2], mutation=cell[3], wrap=cell[4])
                    mech = f'mutation/{cell[0]}/{cell[1]}/{cell[2]}/{cell[3]}'
                elif case.get('part') == 'mismatch' and d['sub'] is not None:
                    mc = mismatch_cells()[case['start'] + d['sub']]
                    kind_ = mismatch_variants()[mc[0]][0]
                    where = dict(part='mismatch', kind=kind_, variant_index=mc[1], op=mc[2], none_is_leaf=mc[3])
                    mech = f'mismatch/{kind_}/{mc[2]}'
                elif case.get('part') == 'confusion':
                    where = dict(case, index=case['start'] + (d['sub'] or 0))
                elif case.get('part') == 'genmut':
                    where = dict(case, index=case['start'] + (d['sub'] or 0), replay_with='vf.props.c16.gen_mutation(sink, seed, index)')
                    mech = 'generated-mutation'
                elif case.get('part') == 'depth':
                    mech = f'depth/{case.get("kind")}'
                elif case.get('part') == 'stale':
                    op_ = STALE_OPS[d['sub']] if d['sub'] is not None and d['sub'] < len(STALE_OPS) else '?'
                    where = dict(case, op=op_)
                    mech = f'stale/{case.get("history")}/{op_}'
                elif case.get('part') == 'deepspec':
                    op_ = DEEP_OPS[d['sub']] if d['sub'] is not None and d['sub'] < len(DEEP_OPS) else '?'
                    where = dict(case, op=op_)
                    mech = f'deepspec/{case.get("build")}/{op_}'
                if d['rc'] == 'stalled':
                    # a sub-step that normally takes milliseconds made no progress for STALL_S seconds; it is a hang of the engine only if the
                    # worker burnt (most of) that time on a CPU and a thread sits inside the extension - otherwise the machine was starved
                    cpu, window = d.get('stall_cpu') or (0.0, 0.0)
                    if window and cpu >= 0.6 * window and 'optree::' in (d.get('gdb') or ''):
                        sink.violation(f'hang/{mech}', 'an operation raises or returns: it never loops forever inside the extension', dict(where, variant=variant, cpu_seconds=cpu, window_seconds=window),
                                       (d.get('gdb') or '')[-2500:])
                    else:
                        sink.notes.append(f'stall without a spinning engine frame in {where} (cpu {cpu}s of {window}s): inconclusive for that case')
                        sink.count('inconclusive-stalls')
                    continue
                sink.violation(f'crash/{mech}/{d.get("signal") or d["rc"]}', 'no input may crash the interpreter', dict(where, variant=variant), d['stderr_tail'][-1800:])
        if variant == 'asan':
            for rep in sanlog.collect(log_path):
                sink.violation(f'sanitizer/{rep["kind"]}/{rep["frame"]}', 'no out-of-bounds, null or use-after-free access (ASan/UBSan report)', dict(variant=variant, reports=rep['count']), rep['text'][:1800])
        sink.count(f'variant:{variant}')
    if tier != 'quick':
        replay_generators(sink, seed)
        replay_repo_suite(sink)


def replay_generators(sink, seed):
    """Thorough: the C01-C11 workloads replayed on the ASan+UBSan build (sanitizer log is the oracle)."""
    import subprocess
    import tempfile

    log_path = os.path.join(build.VERIF, '.work', f'c16-replay-{os.getpid()}-san')
    env = build.env_for('asan', log_path=log_path, extra={'VERIF_SCALE': '0.15'})
    work = tempfile.mkdtemp(prefix='c16r-', dir=os.path.join(build.VERIF, '.work'))
    from concurrent.futures import ThreadPoolExecutor

    def one(p):
        out = os.path.join(work, f'{p}.json')
        r = subprocess.run([build.PY, '-m', 'vf.run', p, 'quick', str(seed), '--shard', '0', '--out', out], env=env, cwd=build.VERIF, capture_output=True, text=True, timeout=3000)
        return p, r.returncode, r.stderr[-1500:]

    props = ['C01', 'C02', 'C03', 'C04', 'C05', 'C06', 'C07', 'C08', 'C09', 'C10']
    with ThreadPoolExecutor(10) as ex:
        for p, rc, err in ex.map(one, props):
            sink.count(f'replayed-under-asan:{p}')
            if rc != 0:
                sink.violation(f'crash/replay/{p}/rc={rc}', 'generator workloads run to completion under ASan', dict(prop=p), err)
    for rep in sanlog.collect(log_path):
        sink.violation(f'sanitizer/{rep["kind"]}/{rep["frame"]}', 'no ASan/UBSan report while replaying the functional workloads', dict(variant='asan', part='replay'), rep['text'][:1800])
    import shutil

    shutil.rmtree(work, ignore_errors=True)


def replay_repo_suite(sink):
    """Thorough: the repository's own test-suite (tens of thousands of maintainers' inputs) run against the ASan+UBSan build of the
    working tree; the sanitizer log and worker deaths are the oracle, the tests' own assertions are only counted."""
    import re
    import shutil
    import subprocess
    import tempfile

    tests = os.path.join(build.repo(), 'tests')
    log_path = os.path.join(build.VERIF, '.work', f'c16-suite-{os.getpid()}-san')
    env = build.env_for('asan', log_path=log_path)
    env.pop('OPTREE_VERIF', None)
    work = tempfile.mkdtemp(prefix='c16s-', dir=os.path.join(build.VERIF, '.work'))
    try:
        from concurrent.futures import ThreadPoolExecutor

        files = sorted(f for f in os.listdir(tests) if f.startswith('test_') and f.endswith('.py'))

        def one(f):
            # one interpreter per test file (pytest-xdist cannot be used: parametrised ids contain object addresses, which differ between
            # ASan workers)
            cwd = os.path.join(work, f[:-3])
            os.makedirs(cwd, exist_ok=True)
            cmd = [build.PY, '-m', 'pytest', '-q', '-p', 'no:cacheprovider', '--timeout=2400', '--rootdir', cwd, '-c', os.devnull, os.path.join(tests, f)]
            try:
                r = subprocess.run(cmd, env=env, cwd=cwd, capture_output=True, text=True, timeout=5400)
            except subprocess.TimeoutExpired:
                return f, None, ''
            return f, r.returncode, r.stdout[-3000:] + r.stderr[-500:]

        with ThreadPoolExecutor(len(files)) as ex:
            results = list(ex.map(one, files))
        for f, rc, tail in results:
            if rc is None:
                sink.notes.append(f'repository suite under ASan: watchdog fired for {f} (inconclusive for that file)')
                sink.count('repo-suite-under-asan:timeouts')
                continue
            m = re.search(r'(\d+) passed', tail)
            sink.count('repo-suite-under-asan:tests-passed', int(m.group(1)) if m else 0)
            sink.count('repo-suite-under-asan:files')
            m = re.search(r'(\d+) failed', tail)
            if m:
                sink.count('repo-suite-under-asan:tests-failed', int(m.group(1)))
                sink.notes.append(f'repository tests failing on the ASan build in {f} (their assertions are not this property): ' + tail[-400:])
            if rc < 0 or rc > 5:
                sink.violation(f'crash/repo-suite/{f}/rc={rc}', 'no input of the repository suite may crash the interpreter (ASan build)', dict(part='repo-suite', file=f, rc=rc), tail[-1500:])
        for rep in sanlog.collect(log_path):
            sink.violation(f'sanitizer/{rep["kind"]}/{rep["frame"]}', 'no ASan/UBSan report while running the repository suite', dict(variant='asan', part='repo-suite'), rep['text'][:1800])
    finally:
        shutil.rmtree(work, ignore_errors=True)


def finalize(sink, tier, seed):
    sink.require('depth-probes', 50)
    sink.require('at-limit-operations', 50)
    sink.require('cyclic-probes')
    sink.require('mutation-callback-fired', 200)
    sink.require('confusion-calls', 1000)
    sink.require('generated-mutation-fired', 500)
    sink.require('generated-mutation-fired/leaves-list', 50)
    sink.require('mismatch-calls', 500)
    sink.require('variant:asan')
