"""Child interpreter for C11: python -m vf.pickle_child <batch.pkl> <history> <out.json>

history in {'same', 'missing', 'reregistered', 'other-namespace'}.
The batch holds, per case: the case tuple (to regenerate the tree here), the option tuple, pickled
bytes per protocol and the custom types the treespec mentions.  For 'missing' / 'other-namespace'
the types are removed cumulatively, one per round, and every case is (re)loaded in every round.
"""
from __future__ import annotations

import json
import pickle
import sys

import optree
from optree.registry import __GLOBAL_NAMESPACE as GLOBAL

from vf import gen, harness
from vf import universe as U
from vf.props import c11


def registrations():
    """[(cls, ns)] harness registrations in a fixed order."""
    return sorted(((r['cls'], r['ns']) for r in U.REG.values()), key=lambda x: (x[0].__name__, x[1]))


def main(argv):
    batch_path, history, out_path = argv
    with open(batch_path, 'rb') as f:
        batch = pickle.load(f)
    results = []

    def load_all(round_name, removed):
        for case in batch:
            name, seed, index, okey = case['case']
            o = gen.Opt(*okey)
            c = harness.make_case(name, seed, index, profile=case['profile'], size_budget=case['size_budget'])
            mentions = set(map(tuple, case['custom']))
            expect_raise = bool(mentions & removed)
            for proto, data in case['pickles'].items():
                rec = dict(case=case['case'], proto=proto, round=round_name, expect_raise=expect_raise)
                try:
                    s = pickle.loads(data)
                except Exception as e:  # noqa: BLE001
                    rec.update(outcome='raised', exc=type(e).__name__, msg=str(e)[:200])
                    results.append(rec)
                    continue
                rec['outcome'] = 'loaded'
                if not expect_raise:
                    with o.ctx():
                        fresh = optree.tree_structure(c.tree, **o.kw())
                        rec['eq_fresh'] = bool(s == fresh and fresh == s)
                        rec['hash_fresh'] = hash(s) == hash(fresh)
                        rec['obs'] = c11.obs(s)
                        rec['obs_fresh'] = c11.obs(fresh)
                results.append(rec)

    if history == 'same':
        load_all('same', set())
    elif history == 'reregistered':
        for cls, ns in registrations():
            e = optree.register_pytree_node.get(cls, namespace=ns or '')
            optree.unregister_pytree_node(cls, namespace=ns or GLOBAL)
            optree.register_pytree_node(cls, e.flatten_func, e.unflatten_func, path_entry_type=e.path_entry_type, namespace=ns or GLOBAL)
        load_all('reregistered', set())
    else:
        removed = set()
        for cls, ns in registrations():
            e = optree.register_pytree_node.get(cls, namespace=ns or '')
            optree.unregister_pytree_node(cls, namespace=ns or GLOBAL)
            if history == 'other-namespace' and optree.register_pytree_node.get(namespace=U.NS_OTHER).get(cls) is None or (
                history == 'other-namespace' and optree.register_pytree_node.get(namespace=U.NS_OTHER)[cls].namespace != U.NS_OTHER
            ):
                optree.register_pytree_node(cls, e.flatten_func, e.unflatten_func, path_entry_type=e.path_entry_type, namespace=U.NS_OTHER)
            removed.add((f'{cls.__module__}.{cls.__qualname__}', ns))
            if (cls, ns) == (U.CShadow, ''):
                # CShadow stays registered in NS: treespecs recorded with namespace NS still resolve
                pass
            load_all(f'{history}:{cls.__name__}@{ns or "global"}', set(removed))
    with open(out_path, 'w') as f:
        json.dump(results, f)


if __name__ == '__main__':
    main(sys.argv[1:])
