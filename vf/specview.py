"""Compare a real PyTreeSpec with a reference Shape *through its public API only*."""
from __future__ import annotations

import optree

from vf import refmodel


def _eq(a, b):
    return a is b or (type(a) is type(b) and a == b)


def match(spec, sh: refmodel.Shape, path='$', deep=True):  # noqa: C901
    """None if spec describes shape; else description of the first difference."""
    kind = getattr(optree.PyTreeKind, refmodel.KIND_NAME[sh.kind])
    if spec.kind != kind:
        return f'{path}: kind {spec.kind} != {kind}'
    if spec.num_leaves != sh.num_leaves:
        return f'{path}: num_leaves {spec.num_leaves} != {sh.num_leaves}'
    if spec.num_nodes != sh.num_nodes:
        return f'{path}: num_nodes {spec.num_nodes} != {sh.num_nodes}'
    if spec.num_children != sh.arity:
        return f'{path}: num_children {spec.num_children} != {sh.arity}'
    if len(spec) != sh.num_leaves:
        return f'{path}: len {len(spec)} != {sh.num_leaves}'
    exp_type = None if sh.kind == 'leaf' else sh.type
    if spec.type is not exp_type:
        return f'{path}: type {spec.type!r} is not {exp_type!r}'
    if spec.is_leaf() != (sh.kind == 'leaf'):
        return f'{path}: is_leaf() {spec.is_leaf()}'
    if spec.is_leaf(strict=False) != (sh.kind in ('leaf',) or (sh.kind != 'leaf' and sh.num_nodes == 1)):
        return f'{path}: is_leaf(strict=False) {spec.is_leaf(strict=False)}'
    entries = spec.entries()
    if len(entries) != len(sh.entries) or not all(_eq(a, b) for a, b in zip(entries, sh.entries)):
        return f'{path}: entries {entries!r} != {list(sh.entries)!r}'
    if not deep:
        return None
    children = spec.children()
    if len(children) != sh.arity:
        return f'{path}: len(children()) {len(children)} != {sh.arity}'
    for i, (c, cs) in enumerate(zip(children, sh.children)):
        d = match(c, cs, f'{path}/{i}')
        if d:
            return d
    return None
