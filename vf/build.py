"""Rebuild the optree engine from the *working tree* of $VERIF_REPO (default /repo).

Variants: plain (g++ -O1), asan (clang++-14 ASan+UBSan), tsan (g++ -fsanitize=thread).
Output: /verif/.build/<variant>-<hash>/optree/{_C...so, *.py -> symlinks}
The directory is used as PYTHONPATH head so it shadows the editable install.
"""
from __future__ import annotations

import fcntl
import glob
import hashlib
import os
import shutil
import subprocess
import sys
import sysconfig
import time
from concurrent.futures import ThreadPoolExecutor

VERIF = os.path.dirname(os.path.dirname(os.path.abspath(__file__)))
PY = '/venv/bin/python'
GUARD = 'OPTREE_VERIF'


def repo() -> str:
    return os.environ.get('VERIF_REPO', '/repo')


def _py_info():
    out = subprocess.check_output(
        [
            PY,
            '-c',
            'import sysconfig,os;'
            'print(sysconfig.get_paths()["include"]);'
            'print(sysconfig.get_config_var("EXT_SUFFIX"));'
            'import importlib.util as u;'
            's=u.find_spec("torch");'
            'print(os.path.join(os.path.dirname(s.origin),"include"))',
        ],
        text=True,
    ).split('\n')
    return out[0], out[1], out[2]


VARIANTS = {
    'plain': dict(
        cxx='g++',
        flags=['-O1', '-g1'],
        ldflags=[],
    ),
    'asan': dict(
        cxx='clang++-14',
        flags=[
            '-O1',
            '-g',
            '-fno-omit-frame-pointer',
            '-fsanitize=address,undefined',
            '-fsanitize-recover=address,undefined',
            '-shared-libasan',
            '-fno-sanitize=vptr,function',
        ],
        ldflags=['-fsanitize=address,undefined', '-shared-libasan'],
    ),
    'tsan': dict(
        cxx='g++',
        flags=['-O1', '-g', '-fsanitize=thread'],
        ldflags=['-fsanitize=thread'],
    ),
}

COMMON = ['-std=c++20', '-fPIC', '-fvisibility=hidden', '-DNDEBUG', '-w']


def sources(r: str):
    return sorted(glob.glob(os.path.join(r, 'src', '*.cpp')) + glob.glob(os.path.join(r, 'src', 'treespec', '*.cpp')))


def source_hash(r: str, variant: str) -> str:
    h = hashlib.sha256()
    files = sources(r) + sorted(glob.glob(os.path.join(r, 'include', 'optree', '*.h')))
    for f in files:
        h.update(os.path.relpath(f, r).encode())
        with open(f, 'rb') as fh:
            h.update(fh.read())
    v = VARIANTS[variant]
    h.update(repr((v, COMMON)).encode())
    h.update(os.path.realpath(r).encode())
    return h.hexdigest()[:16]


def asan_runtime() -> str:
    out = subprocess.check_output(['clang++-14', '-print-file-name=libclang_rt.asan-x86_64.so'], text=True).strip()
    return os.path.realpath(out)


def tsan_runtime() -> str:
    out = subprocess.check_output(['g++', '-print-file-name=libtsan.so'], text=True).strip()
    return os.path.realpath(out)


def build(variant: str = 'plain', quiet: bool = True) -> str:
    """Return the overlay dir (to be put first on PYTHONPATH)."""
    r = repo()
    bdir = os.path.join(VERIF, '.build')
    os.makedirs(bdir, exist_ok=True)
    hsh = source_hash(r, variant)
    out = os.path.join(bdir, f'{variant}-{hsh}')
    lock = open(os.path.join(bdir, f'.lock-{variant}'), 'w')
    fcntl.flock(lock, fcntl.LOCK_EX)
    try:
        inc, suffix, torch_inc = _py_info()
        so = os.path.join(out, 'optree', '_C' + suffix)
        if not os.path.exists(so):
            # prune stale builds of this variant: only those beyond the 6 most recently USED ones (every use refreshes the mtime below) that
            # nobody used for two hours - other checks, e.g. several against scratch copies selected with VERIF_REPO, may be running from them
            old = sorted((d for d in glob.glob(os.path.join(bdir, f'{variant}-*')) if not d.endswith('.tmp')), key=os.path.getmtime)
            for d in old[:-6]:
                if time.time() - os.path.getmtime(d) > 7200:
                    shutil.rmtree(d, ignore_errors=True)
            tmp = out + '.tmp'
            shutil.rmtree(tmp, ignore_errors=True)
            os.makedirs(os.path.join(tmp, 'optree'))
            objdir = os.path.join(tmp, 'obj')
            os.makedirs(objdir)
            v = VARIANTS[variant]
            t0 = time.time()

            def cc(src):
                obj = os.path.join(objdir, os.path.basename(src) + '.o')
                cmd = (
                    [v['cxx']]
                    + COMMON
                    + v['flags']
                    + ['-I', os.path.join(r, 'include'), '-isystem', inc, '-isystem', torch_inc, '-c', src, '-o', obj]
                )
                p = subprocess.run(cmd, capture_output=True, text=True)
                if p.returncode != 0:
                    raise RuntimeError(f'compile failed: {" ".join(cmd)}\n{p.stderr[-4000:]}')
                return obj

            with ThreadPoolExecutor(16) as ex:
                objs = list(ex.map(cc, sources(r)))
            cmd = [v['cxx'], '-shared'] + v['ldflags'] + objs + ['-o', os.path.join(tmp, 'optree', '_C' + suffix)]
            p = subprocess.run(cmd, capture_output=True, text=True)
            if p.returncode != 0:
                raise RuntimeError(f'link failed: {p.stderr[-4000:]}')
            shutil.rmtree(objdir)
            os.rename(tmp, out)
            if not quiet:
                print(f'[build] {variant} built in {time.time() - t0:.1f}s -> {out}', file=sys.stderr)
        try:
            os.utime(out, None)  # mark as in use (see the pruning rule above)
        except OSError:
            pass
        # (re)link python sources: always point at the current working tree
        pkg = os.path.join(out, 'optree')
        for name in os.listdir(os.path.join(r, 'optree')):
            if name.endswith('.so') or name == '__pycache__':
                continue
            dst = os.path.join(pkg, name)
            src = os.path.join(r, 'optree', name)
            if os.path.islink(dst):
                if os.readlink(dst) == src:
                    continue
                os.unlink(dst)
            elif os.path.exists(dst):
                continue
            os.symlink(src, dst)
        for name in os.listdir(pkg):
            dst = os.path.join(pkg, name)
            if os.path.islink(dst) and not os.path.exists(dst):
                os.unlink(dst)
        return out
    finally:
        fcntl.flock(lock, fcntl.LOCK_UN)
        lock.close()


def build_inplace() -> str:
    """Rebuild $VERIF_REPO/optree/_C*.so from the working tree with release flags (git-ignored artifact)."""
    r = repo()
    inc, suffix, torch_inc = _py_info()
    so = os.path.join(r, 'optree', '_C' + suffix)
    os.makedirs(os.path.join(VERIF, '.build'), exist_ok=True)
    stamp = os.path.join(VERIF, '.build', 'inplace.srchash')
    h = source_hash(r, 'plain') + '-O2'
    if os.path.exists(so) and os.path.exists(stamp) and open(stamp).read() == h:
        return so
    import tempfile

    objdir = tempfile.mkdtemp(prefix='optree-inplace-', dir=os.path.join(VERIF, '.build') if os.path.isdir(os.path.join(VERIF, '.build')) else None)
    try:
        def cc(src):
            obj = os.path.join(objdir, os.path.basename(src) + '.o')
            cmd = ['g++'] + COMMON + ['-O2', '-I', os.path.join(r, 'include'), '-isystem', inc, '-isystem', torch_inc, '-c', src, '-o', obj]
            p = subprocess.run(cmd, capture_output=True, text=True)
            if p.returncode != 0:
                raise RuntimeError(p.stderr[-4000:])
            return obj

        with ThreadPoolExecutor(16) as ex:
            objs = list(ex.map(cc, sources(r)))
        tmp = so + '.tmp'
        p = subprocess.run(['g++', '-shared'] + objs + ['-o', tmp], capture_output=True, text=True)
        if p.returncode != 0:
            raise RuntimeError(p.stderr[-4000:])
        os.replace(tmp, so)
        with open(stamp, 'w') as f:
            f.write(h)
    finally:
        shutil.rmtree(objdir, ignore_errors=True)
    return so


def env_for(variant: str = 'plain', extra: dict | None = None, log_path: str | None = None) -> dict:
    overlay = build(variant)
    env = dict(os.environ)
    pp = [overlay, VERIF]
    deps = os.path.join(VERIF, '.deps')
    if os.path.isdir(deps):
        pp.append(deps)
    env['PYTHONPATH'] = os.pathsep.join(pp)
    env[GUARD] = '1'
    env.setdefault('PYTHONHASHSEED', '0')
    env['PYTHONDONTWRITEBYTECODE'] = '1'
    env['VERIF_VARIANT'] = variant
    if variant == 'asan':
        env['LD_PRELOAD'] = asan_runtime()
        env['PYTHONMALLOC'] = 'malloc'
        opts = 'detect_leaks=0:halt_on_error=0:handle_segv=1:allocator_may_return_null=1:detect_stack_use_after_return=0'
        if log_path:
            opts += f':log_path={log_path}'
        env['ASAN_OPTIONS'] = opts
        env['UBSAN_OPTIONS'] = 'print_stacktrace=1:halt_on_error=0' + (f':log_path={log_path}' if log_path else '')
    elif variant == 'tsan':
        env['LD_PRELOAD'] = tsan_runtime()
        opts = 'halt_on_error=0:second_deadlock_stack=1:report_signal_unsafe=0:history_size=4:exitcode=0'
        if log_path:
            opts += f':log_path={log_path}'
        env['TSAN_OPTIONS'] = opts
    if extra:
        env.update(extra)
    return env


if __name__ == '__main__':
    for v in sys.argv[1:] or ['plain']:
        print(build(v, quiet=False))
