"""Seeded generators: keys, tree descriptions, materialisation with container histories,
option grids, and edits for pairs.  Everything is driven by random.Random seeded from
(VERIF_SEED, generator name, index) so that a case tuple regenerates the case exactly.

A tree is first generated as a *description* (class D) and then materialised into real
python containers through an operation script (the "history"), never a literal.
"""
from __future__ import annotations

import contextlib
import itertools
import collections
import fractions
import random
from collections import OrderedDict, defaultdict, deque

import optree
from optree.registry import __GLOBAL_NAMESPACE as GLOBAL

from vf import universe as U


# ----------------------------------------------------------------------------- keys
class UKey:
    """Hashable, unorderable (no __lt__) user key."""

    __slots__ = ('v',)

    def __init__(self, v):
        self.v = v

    def __hash__(self):
        return hash(('UKey', self.v))

    def __eq__(self, o):
        return type(o) is UKey and o.v == self.v

    def __repr__(self):
        return f'UKey({self.v})'


class OKey:
    """Totally ordered user key."""

    __slots__ = ('v',)

    def __init__(self, v):
        self.v = v

    def __hash__(self):
        return hash(('OKey', self.v))

    def __eq__(self, o):
        return type(o) is OKey and o.v == self.v

    def __lt__(self, o):
        if type(o) is not OKey:
            return NotImplemented
        return self.v < o.v

    def __repr__(self):
        return f'OKey({self.v})'


class TieKey:
    """Hashable keys for which < is always False (never raises): every pair is a tie for a sort."""

    __slots__ = ('v',)

    def __init__(self, v):
        self.v = v

    def __lt__(self, o):
        return False if type(o) is TieKey else NotImplemented

    def __eq__(self, o):
        return type(o) is TieKey and o.v == self.v

    def __hash__(self):
        return hash(('TieKey', self.v))

    def __repr__(self):
        return f'TieKey({self.v})'


class HKey:
    """Keys whose hashes all collide (forces __eq__ during lookups); totally ordered."""

    __slots__ = ('v',)

    def __init__(self, v):
        self.v = v

    def __hash__(self):
        return 42

    def __eq__(self, o):
        return type(o) is HKey and o.v == self.v

    def __lt__(self, o):
        if type(o) is not HKey:
            return NotImplemented
        return self.v < o.v

    def __repr__(self):
        return f'HKey({self.v})'


_WORDS = ['zeta', 'alpha', 'mu', 'b', 'a', 'Z', 'aa', 'key', 'x1', 'x10', 'x2', 'omega', '', ' sp', 'Ünï', 'k_9',
          "it's", 'say "hi"', 'back\\slash', 'new\nline', '{brace}', '%s', 'a.b', 'x[0]', "'", 'None']

# key styles: name -> (generator of n distinct keys, totally_ordered?, literal_repr?)
class IntSub(int):
    """int subclass key: orders with ints, but has its own type name in the (type name, key) fallback."""

    __slots__ = ()

    def __repr__(self):
        return f'IntSub({int(self)})'


class StrSub(str):
    __slots__ = ()

    def __repr__(self):
        return f'StrSub({str(self)!r})'


KeyPair = collections.namedtuple('KeyPair', ['a', 'b'])


def _same_name_class(tag):
    """Two distinct classes with the SAME module and qualified name: ordered within a class, unorderable across."""

    class SameName:
        __slots__ = ('v',)

        def __init__(self, v):
            self.v = v

        def __hash__(self):
            return hash((tag, self.v))

        def __eq__(self, o):
            return type(o) is type(self) and o.v == self.v

        def __lt__(self, o):
            if type(o) is not type(self):
                return NotImplemented
            return self.v < o.v

        def __repr__(self):
            return f'SameName{tag}({self.v})'

    SameName.__qualname__ = 'SameName'
    return SameName


SameNameA, SameNameB = _same_name_class('A'), _same_name_class('B')


KEY_STYLES = (
    'str',
    'int',
    'intstr',  # stage-2 sort
    'tuple',
    'float',
    'bytes',
    'mixed4',  # ints, strs, tuples, None  (stage 2)
    'okey',
    'hkey',
    'ukey',  # stage 3: insertion order
    'complex',  # stage 3
    'ukey_mixed',  # ints + UKeys: stage 1 and 2 fail half-way
    'frozenset',  # partial order
    'nan',  # non-reflexive
    'bool',
    'nan_mixed',  # ints + floats + NaNs + a late str: the plain sort fails half-way, the fallback has ties
    'fs_mixed',  # frozensets (partial order) + ints + strs
    'tie_mixed',  # user keys that never order (no TypeError) + ints + strs
    'subclassed',  # ints, strs and instances of int / str subclasses: the fallback groups by the exact class name
    'samename',  # keys of two classes sharing one qualified name: the (type name, key) fallback compares them and fails
    'comparable_mixed',  # several exact types that ARE mutually orderable (int + int subclass + Fraction + float, str + str subclass, tuple + namedtuple): plain sorted() order
)
TOTAL_STYLES = {'str', 'int', 'intstr', 'tuple', 'float', 'bytes', 'mixed4', 'okey', 'hkey', 'bool', 'comparable_mixed'}
LITERAL_STYLES = {'str', 'int', 'intstr', 'tuple', 'float', 'bytes', 'mixed4', 'bool'}


def gen_keys(rng: random.Random, n: int, style: str):
    """n distinct (pairwise unequal) hashable keys in a random order."""
    out = []
    seen = set()

    def add(k):
        try:
            if k in seen:
                return
            seen.add(k)
        except TypeError:
            return
        out.append(k)

    tries = 0
    while len(out) < n and tries < 1000:
        tries += 1
        if style == 'str':
            add(rng.choice(_WORDS) + (str(rng.randrange(100)) if rng.random() < 0.5 else ''))
        elif style == 'int':
            add(rng.randrange(-50, 1000))
        elif style == 'intstr':
            add(rng.randrange(-5, 50) if rng.random() < 0.5 else rng.choice(_WORDS) + str(rng.randrange(10)))
        elif style == 'tuple':
            add(tuple(rng.randrange(4) for _ in range(rng.randrange(0, 3))))
        elif style == 'float':
            add(rng.choice([0.5, -1.25, 3.0, 1e300, -0.0, 7.75, 2.5, 1e-9, 10.5, 11.5, 12.5, 13.5]) + rng.randrange(3))
        elif style == 'bytes':
            add(bytes(rng.randrange(97, 123) for _ in range(rng.randrange(0, 3))))
        elif style == 'mixed4':
            r = rng.random()
            if r < 0.3:
                add(rng.randrange(20))
            elif r < 0.6:
                add(rng.choice(_WORDS))
            elif r < 0.85:
                add((rng.randrange(3), rng.randrange(3)))
            else:
                add(None)
        elif style == 'okey':
            add(OKey(rng.randrange(100)))
        elif style == 'hkey':
            add(HKey(rng.randrange(100)))
        elif style == 'ukey':
            add(UKey(rng.randrange(100)))
        elif style == 'complex':
            add(complex(rng.randrange(5), rng.randrange(1, 5)))
        elif style == 'ukey_mixed':
            add(UKey(rng.randrange(100)) if rng.random() < 0.4 else rng.randrange(100))
        elif style == 'frozenset':
            add(frozenset(rng.sample(range(4), rng.randrange(0, 4))))
        elif style == 'nan':
            if rng.random() < 0.5:
                out.append(float('nan'))  # distinct NaN objects are distinct keys
            else:
                add(float(rng.randrange(10)))
        elif style == 'bool':
            add(rng.choice([True, False, 2, 3, 'True']))
        elif style == 'nan_mixed':
            r = rng.random()
            if r < 0.25:
                out.append(float('nan'))
            elif r < 0.55:
                add(rng.randrange(-5, 40))
            elif r < 0.85:
                add(rng.randrange(-5, 40) + 0.5)
            elif len(out) >= n // 2:
                add(rng.choice(_WORDS))
        elif style == 'fs_mixed':
            r = rng.random()
            if r < 0.5:
                add(frozenset(rng.sample(range(5), rng.randrange(0, 4))))
            elif r < 0.85:
                add(rng.randrange(20))
            elif len(out) >= n // 2:
                add(rng.choice(_WORDS))
        elif style == 'tie_mixed':
            r = rng.random()
            if r < 0.5:
                add(TieKey(rng.randrange(100)))
            elif r < 0.85:
                add(rng.randrange(20))
            elif len(out) >= n // 2:
                add(rng.choice(_WORDS) + str(rng.randrange(10)))
        elif style == 'subclassed':
            r = rng.random()
            if r < 0.3:
                add(rng.randrange(30))
            elif r < 0.55:
                add(IntSub(rng.randrange(30)))
            elif r < 0.8:
                add(rng.choice(_WORDS))
            else:
                add(StrSub(rng.choice(_WORDS) + 'S'))
        elif style == 'comparable_mixed':
            if not out:
                family = rng.choice(['num', 'str', 'tuple'])
            else:
                family = 'num' if isinstance(out[0], (int, float, fractions.Fraction)) else 'str' if isinstance(out[0], str) else 'tuple'
            v = rng.randrange(-20, 60)
            if family == 'num':
                add(rng.choice([v, IntSub(v), fractions.Fraction(2 * v + 1, 2), v + 0.25]))
            elif family == 'str':
                w = rng.choice(_WORDS) + str(rng.randrange(20))
                add(rng.choice([w, StrSub(w)]))
            else:
                add(rng.choice([(v % 5, v % 3), KeyPair(v % 5, v % 3 + 10), (v % 5,)]))
        elif style == 'samename':
            r = rng.random()
            if r < 0.4:
                add(SameNameA(rng.randrange(50)))
            elif r < 0.8:
                add(SameNameB(rng.randrange(50)))
            else:
                add(rng.randrange(30))
        else:
            raise ValueError(style)
    rng.shuffle(out)
    return out


# ----------------------------------------------------------------------------- descriptions
class D:
    """Tree description node."""

    __slots__ = ('k', 'cls', 'meta', 'items', 'keystyle')

    def __init__(self, k, items=None, cls=None, meta=None, keystyle=None):
        self.k = k
        self.items = items if items is not None else []
        self.cls = cls
        self.meta = meta
        self.keystyle = keystyle

    def copy(self):
        if self.k in DICTS or self.k == 'udict' or self.k == 'cmap':
            items = [(k, c.copy()) for k, c in self.items]
        else:
            items = [c.copy() for c in self.items]
        return D(self.k, items, self.cls, self.meta, self.keystyle)

    def children(self):
        if self.k in DICTS or self.k in ('udict', 'cmap'):
            return [c for _, c in self.items]
        return self.items

    def set_child(self, i, c):
        if self.k in DICTS or self.k in ('udict', 'cmap'):
            self.items[i] = (self.items[i][0], c)
        else:
            self.items[i] = c

    def size(self):
        return 1 + sum(c.size() for c in self.children())

    def depth(self):
        return 1 + max((c.depth() for c in self.children()), default=0)

    def walk(self):
        yield self
        for c in self.children():
            yield from c.walk()

    def short(self):  # compact printable form for evidence samples
        k = self.k
        if k == 'leaf':
            return self.meta if self.meta != 'L' else '*'
        if k == 'none':
            return 'None'
        ch = ','.join(
            (f'{key!r}:{c.short()}' for key, c in self.items)
            if (k in DICTS or k in ('udict', 'cmap'))
            else (c.short() for c in self.items)
        )
        name = {
            'tuple': 'T',
            'list': 'L',
            'deque': f'Dq{self.meta}',
            'dict': 'd',
            'odict': 'od',
            'ddict': f'dd<{getattr(self.meta, "__name__", self.meta)}>',
        }.get(k) or getattr(self.cls, '__name__', k)
        return f'{name}({ch})'


DICTS = ('dict', 'odict', 'ddict')
LEAF_STYLES = ('L', 'L', 'L', 'L', 'dupL', 'int', 'str', 'nan', 'bytes', 'ListSub', 'TupleSub', 'DictSub', 'ODictSub', 'DDictSub', 'DequeSub', 'FakeNT', 'UserDict', 'obj')


class Profile:
    """Weights for node kinds; strata are profiles."""

    def __init__(self, name, weights, max_depth=5, max_fan=4, leaf_styles=LEAF_STYLES, key_styles=KEY_STYLES, none_p=0.08):
        self.name = name
        self.weights = weights
        self.max_depth = max_depth
        self.max_fan = max_fan
        self.leaf_styles = leaf_styles
        self.key_styles = key_styles
        self.none_p = none_p


_ALL = {
    'tuple': 3, 'list': 3, 'deque': 2, 'dict': 4, 'odict': 3, 'ddict': 3, 'nt': 3, 'ss': 1.5,
    'cseq': 1.5, 'creent': 1.5, 'clist': 1, 'cmap': 1.5, 'cattr': 1, 'cns': 1, 'cshadow': 1.5, 'cuser': 1, 'udict': 1,
    'dc': 1, 'dcg': 1, 'partial': 1, 'pdc': 1,
}
PROFILES = {
    'mixed': Profile('mixed', _ALL),
    'dicts': Profile('dicts', {'dict': 5, 'odict': 4, 'ddict': 4, 'cmap': 1, 'udict': 1, 'cseq': 1, 'tuple': 1}),
    'custom': Profile('custom', {k: v for k, v in _ALL.items() if k.startswith('c') or k in ('udict', 'dc', 'dcg', 'partial', 'dict', 'odict', 'pdc')}),
    'seq': Profile('seq', {'tuple': 3, 'list': 3, 'deque': 3, 'nt': 3, 'ss': 2}),
    'none': Profile('none', {'tuple': 2, 'list': 2, 'dict': 2, 'nt': 1, 'cseq': 1}, none_p=0.45),
    'plain': Profile('plain', {'tuple': 3, 'list': 3, 'dict': 3, 'odict': 2, 'ddict': 2, 'deque': 2, 'nt': 2},
                     leaf_styles=('L',), key_styles=('str', 'int', 'tuple', 'intstr')),
    'wide': Profile('wide', {'list': 2, 'dict': 3, 'tuple': 1, 'odict': 1}, max_depth=2, max_fan=80,
                    key_styles=('str', 'int', 'intstr', 'okey', 'ukey_mixed', 'float')),
}
PROFILE_NAMES = tuple(PROFILES)


class TreeGen:
    def __init__(self, rng: random.Random, profile: Profile):
        self.rng = rng
        self.p = profile

    def leaf(self):
        return D('leaf', meta=self.rng.choice(self.p.leaf_styles))

    def node(self, depth, budget):  # noqa: C901
        rng = self.rng
        if depth == 0:
            # a tree that is a single leaf / None is a corner worth keeping, but not a third of all cases
            r0 = rng.random()
            if r0 < 0.02:
                return D('none')
            if r0 < 0.06 or budget[0] <= 0:
                return self.leaf()
        else:
            if rng.random() < self.p.none_p:
                return D('none')
            if depth >= self.p.max_depth or budget[0] <= 0 or rng.random() < 0.28 + 0.08 * depth:
                return self.leaf()
        kinds, weights = zip(*self.p.weights.items())
        k = rng.choices(kinds, weights)[0]
        r = rng.random()
        if self.p.max_fan > 10:
            n = rng.choice([0, 1, 2, 3, self.p.max_fan // 2, self.p.max_fan]) if depth == 0 else rng.randrange(0, 4)
        else:
            n = 0 if r < 0.12 else rng.randrange(1, self.p.max_fan + 1)
        budget[0] -= n

        def kids(m):
            return [self.node(depth + 1, budget) for _ in range(m)]

        if k in ('tuple', 'list'):
            ks = kids(n)
            # now and then a second dict with the SAME key set in another insertion order (and sometimes another dict kind) as a sibling:
            # anything keyed by "the keys of a node" (caches, shared key lists) must still keep the two nodes apart
            cands = [c for c in ks if c.k in DICTS and len(c.items) >= 2]
            if cands and rng.random() < 0.25:
                twin = rng.choice(cands).copy()
                how = rng.random()
                if how < 0.3 and twin.k == 'ddict':
                    # same keys in the SAME order, another default factory: all that tells the two nodes apart is the metadata
                    twin.meta = rng.choice([f_ for f_ in U.FACTORIES if f_ is not twin.meta])
                else:
                    rng.shuffle(twin.items)
                    if rng.random() < 0.3:
                        twin.k = rng.choice(DICTS)
                        twin.meta = rng.choice(U.FACTORIES) if twin.k == 'ddict' else None
                ks.insert(rng.randrange(len(ks) + 1), twin)
            return D(k, ks)
        if k == 'deque':
            maxlen = rng.choice([None, None, n, n + 2, 300, 1000]) if n else rng.choice([None, 0, 3, 4096])
            return D('deque', kids(n), meta=maxlen)
        if k in DICTS:
            style = rng.choice(self.p.key_styles)
            keys = gen_keys(rng, n, style)
            d = D(k, list(zip(keys, kids(len(keys)))), keystyle=style)
            if k == 'ddict':
                d.meta = rng.choice(U.FACTORIES)
            return d
        if k == 'nt':
            cls = rng.choice(U.NAMEDTUPLES)
            return D('nt', kids(len(cls._fields)), cls=cls)
        if k == 'ss':
            cls = rng.choices(U.STRUCTSEQS, [4, 3, 3, 2, 1, 1])[0]
            return D('ss', kids(U.STRUCTSEQ_ARITY[cls]), cls=cls)
        meta = rng.choice([None, 0, 'm', ('t', 1), 'other', 1000, 'a longer metadata string', (257, 'x', 2.5)])
        if k == 'cseq':
            return D('custom', kids(n), cls=U.CSeq, meta=meta)
        if k == 'creent':
            return D('custom', kids(n), cls=U.CReent, meta=meta)
        if k == 'clist':
            return D('custom', kids(n), cls=U.CList, meta=meta)
        if k == 'cns':
            return D('custom', kids(n), cls=rng.choice((U.CNs, U.CNs, U.CHist)), meta=meta)
        if k == 'cshadow':
            return D('custom', kids(n), cls=rng.choice((U.CShadow, U.CShadow2)), meta=meta)
        if k == 'cuser':
            return D('custom', kids(n), cls=U.CUser, meta=meta)
        if k == 'cattr':
            return D('custom', kids(2), cls=U.CAttr, meta=meta)
        if k == 'cmap':
            names = gen_keys(rng, n, 'str')
            return D('cmap', list(zip(names, kids(len(names)))), cls=U.CMap, meta=meta)
        if k == 'udict':
            style = rng.choice(('str', 'int', 'tuple'))
            keys = gen_keys(rng, n, style)
            return D('udict', list(zip(keys, kids(len(keys)))), cls=U.UDict, keystyle=style)
        if k == 'dc':
            return D('custom', kids(2), cls=U.DC, meta=rng.choice([0, 'z', (1, 2)]))
        if k == 'dcg':
            return D('custom', kids(2), cls=U.DCG, meta=rng.choice(['t', 'u', 3]))
        if k == 'pdc':
            return D('custom', kids(3), cls=U.PDC)
        if k == 'partial':
            na = rng.randrange(0, 3)
            nk = rng.randrange(0, 3)
            kw = rng.sample(['kw_b', 'kw_a', 'z', 'alpha'], nk)
            return D('partial', [D('tuple', kids(na)), D('dict', list(zip(kw, kids(nk))), keystyle='kw')], cls=optree.functools.partial)
        raise AssertionError(k)

    def tree(self, size_budget=24):
        return self.node(0, [size_budget])


def gen_desc(rng, profile_name=None, size_budget=24):
    name = profile_name or rng.choice(PROFILE_NAMES)
    return TreeGen(rng, PROFILES[name]).tree(size_budget), name


def fresh(x):
    """An equal but (where python allows) non-identical copy of a key / metadata value, so that
    identity-instead-of-equality shortcuts in the engine become observable."""
    t = type(x)
    if t is tuple:
        return tuple([fresh(e) for e in x]) if x else x
    if t is str:
        return ''.join(list(x)) if len(x) > 1 else x
    if t is bytes:
        return bytes(bytearray(x)) if len(x) > 1 else x
    if t is int:
        return int(str(x)) if abs(x) > 256 else x
    if t is float:
        return x if x != x else float(repr(x))
    if t is complex:
        return complex(repr(x))
    if t is frozenset:
        return frozenset(list(x)) if x else x
    if t in (UKey, OKey, HKey, TieKey):
        return t(x.v)
    return x


# ----------------------------------------------------------------------------- materialisation
class Mat:
    """Materialise a description into real containers through operation scripts."""

    def __init__(self, rng: random.Random, leaf_of=None, history=True):
        self.rng = rng
        self.n = itertools.count()
        self.leaf_of = leaf_of  # optional: callable(D) -> leaf object (to share leaves between trees)
        self.history = history
        self.hist_classes = set()
        self.leaf_objs = []

    def leaf(self, d: D):
        if self.leaf_of is not None:
            x = self.leaf_of(d)
            self.leaf_objs.append(x)
            return x
        i = next(self.n)
        s = d.meta
        rng = self.rng
        if s == 'dupL':
            prev = [y for y in self.leaf_objs if type(y) is U.Leaf]
            x = rng.choice(prev) if prev else U.Leaf(i)  # the same leaf object at several positions
            if prev:
                self.hist_classes.add('shared-leaf-object')
        elif s == 'L' or s is None:
            x = U.Leaf(i)
        elif s == 'int':
            x = rng.randrange(-5, 300)
        elif s == 'str':
            x = f's{i}'
        elif s == 'nan':
            x = float('nan')
        elif s == 'bytes':
            x = b'b%d' % i
        elif s == 'ListSub':
            x = U.ListSub([U.Leaf(i), 1])
        elif s == 'TupleSub':
            x = U.TupleSub((U.Leaf(i),))
        elif s == 'DictSub':
            x = U.DictSub(a=U.Leaf(i))
        elif s == 'ODictSub':
            x = U.ODictSub(a=U.Leaf(i))
        elif s == 'DDictSub':
            x = U.DDictSub(int, a=U.Leaf(i))
        elif s == 'DequeSub':
            x = U.DequeSub([U.Leaf(i)])
        elif s == 'FakeNT':
            x = U.FakeNT((1, 2))
        elif s == 'UserDict':
            x = U.PlainUserDict(a=1)
        elif s == 'obj':
            x = object()
        else:
            raise AssertionError(s)
        self.leaf_objs.append(x)
        return x

    # --- container histories
    def _dict_script(self, kind, pairs, factory):
        """Build a dict-like so that its final iteration order == the order of ``pairs``."""
        rng = self.rng
        if kind == 'dict':
            d = {}
        elif kind == 'odict':
            d = OrderedDict()
        else:
            d = defaultdict(factory)
        if not self.history or not pairs:
            for k, v in pairs:
                d[k] = v
            return d
        r = rng.random()
        keys = [k for k, _ in pairs]
        vals = dict((id(k), v) for k, v in pairs)
        if r < 0.3:
            # insert in a shuffled order, then delete + re-insert to reach the target order
            order = list(pairs)
            rng.shuffle(order)
            for k, v in order:
                d[k] = v
            for k, v in pairs:
                del d[k]
                d[k] = v
            self.hist_classes.add('delete+reinsert')
        elif r < 0.5:
            # extra junk keys inserted and deleted (storage holes)
            junk = [('__junk__', j) for j in range(rng.randrange(1, 6))]
            for j, (k, v) in enumerate(pairs):
                if j < len(junk):
                    d[junk[j]] = None
                d[k] = v
            for j in junk:
                d.pop(j, None)
            self.hist_classes.add('junk-holes')
        elif r < 0.65 and kind == 'odict':
            order = list(pairs)
            rng.shuffle(order)
            for k, v in order:
                d[k] = v
            for k, _ in pairs:
                d.move_to_end(k)
            if rng.random() < 0.5 and pairs:
                k, v = d.popitem(last=True)
                d[k] = v
            self.hist_classes.add('move_to_end')
        elif r < 0.65 and kind == 'ddict' and factory is not None:
            for k, _ in pairs:
                d[k]  # auto-insertion through __missing__
            for k, v in pairs:
                d[k] = v  # overwrite keeps position
            self.hist_classes.add('defaultdict-autoinsert')
        elif r < 0.8:
            # overwrite values (position kept), update() from another dict
            for k, _ in pairs:
                d[k] = None
            d.update(pairs)
            self.hist_classes.add('overwrite')
        else:
            for k, v in pairs:
                d[k] = v
        assert [id(k) for k in d] == [id(k) for k in keys] or list(d) == keys
        return d

    def _list_script(self, items):
        rng = self.rng
        if not self.history or not items or rng.random() < 0.5:
            return list(items)
        out = []
        for x in items:
            out.append(x)
        # insert/pop churn that leaves content unchanged
        for _ in range(rng.randrange(1, 4)):
            pos = rng.randrange(len(out) + 1)
            out.insert(pos, None)
            out.pop(pos)
        out.extend([None] * 3)
        del out[-3:]
        self.hist_classes.add('list-churn')
        return out

    def _deque_script(self, items, maxlen):
        rng = self.rng
        if not self.history or rng.random() < 0.4:
            return deque(items, maxlen=maxlen)
        dq = deque(maxlen=maxlen)
        n = len(items)
        if maxlen is not None and maxlen == n and n > 0:
            # overfill at maxlen: earlier elements fall off the left
            for j in range(rng.randrange(1, 4)):
                dq.append(('junk', j))
            for x in items:
                dq.append(x)
            r = rng.randrange(n)
            dq.rotate(r)
            dq.rotate(-r)
            self.hist_classes.add('deque-rotate-at-maxlen')
        else:
            half = n // 2
            for x in reversed(items[:half]):
                dq.appendleft(x)
            for x in items[half:]:
                dq.append(x)
            if n:
                dq.rotate(1)
                dq.rotate(-1)
            self.hist_classes.add('deque-appendleft')
        assert list(dq) == list(items) or all(a is b for a, b in zip(dq, items))
        return dq

    def make(self, d: D):  # noqa: C901
        k = d.k
        if k == 'leaf':
            return self.leaf(d)
        if k == 'none':
            return None
        if k == 'tuple':
            return tuple(self.make(c) for c in d.items)
        if k == 'list':
            return self._list_script([self.make(c) for c in d.items])
        if k == 'deque':
            return self._deque_script([self.make(c) for c in d.items], fresh(d.meta))
        if k in DICTS:
            return self._dict_script(k, [(fresh(key), self.make(c)) for key, c in d.items], d.meta)
        if k == 'nt':
            return d.cls(*[self.make(c) for c in d.items])
        if k == 'ss':
            return d.cls([self.make(c) for c in d.items])
        if k == 'custom':
            kids = [self.make(c) for c in d.items]
            meta = fresh(d.meta)
            if d.cls is U.CAttr:
                return U.CAttr(kids[0], kids[1], meta)
            if d.cls is U.DC:
                return U.DC(kids[0], kids[1], meta)
            if d.cls is U.DCG:
                return U.DCG(p=kids[0], q=kids[1], tag=meta)
            if d.cls is U.PDC:
                return U.PDC(kids[0], kids[1], kids[2])
            return d.cls(kids, meta)
        if k == 'cmap':
            return U.CMap([self.make(c) for _, c in d.items], fresh(d.meta), [fresh(n) for n, _ in d.items])
        if k == 'udict':
            u = U.UDict()
            for key, c in d.items:
                u[fresh(key)] = self.make(c)
            return u
        if k == 'partial':
            args = self.make(d.items[0])
            kwargs = self.make(d.items[1])
            return optree.functools.partial(U.rec_fn, *args, **kwargs)
        raise AssertionError(k)


def materialize(desc, rng, leaf_of=None, history=True):
    m = Mat(rng, leaf_of, history)
    return m.make(desc), m


# ----------------------------------------------------------------------------- options
def pred_is_list(x):
    U.tick('pred', x)
    return type(x) is list


def pred_is_dictish(x):
    U.tick('pred', x)
    return isinstance(x, dict)


def pred_pair(x):
    U.tick('pred', x)
    return type(x) is tuple and len(x) == 2


def pred_always(x):
    U.tick('pred', x)
    return True


def pred_never(x):
    U.tick('pred', x)
    return False


def pred_custom(x):
    U.tick('pred', x)
    return isinstance(x, (U.CBase, U.CAttr))


def pred_flat_pair(x):
    """content based: a 2-tuple whose items are not containers (same type, different verdicts)."""
    U.tick('pred', x)
    return type(x) is tuple and len(x) == 2 and not any(isinstance(e, (tuple, list, dict)) for e in x)


def pred_short_list(x):
    U.tick('pred', x)
    return type(x) is list and len(x) <= 1


def pred_none(x):
    U.tick('pred', x)
    return x is None


PREDICATES = {
    'none': None,
    'is_list': pred_is_list,
    'dictish': pred_is_dictish,
    'pair': pred_pair,
    'always': pred_always,
    'never': pred_never,
    'custom': pred_custom,
    'isNone': pred_none,
    'flat_pair': pred_flat_pair,
    'short_list': pred_short_list,
}
# predicates whose verdict depends on the *leaf values* below the object (not only on its type / shape): an operation that replaces leaves
# (unflatten with new leaves, tree_map) legitimately changes how the rebuilt tree is classified, so clauses that re-flatten a tree with replaced
# leaves under the same predicate do not use them
LEAF_CONTENT_PREDS = frozenset({'flat_pair'})
DICT_MODES = ('sorted', 'ins-global', 'ins-ns')


class Opt:
    __slots__ = ('none_is_leaf', 'namespace', 'pred', 'dict_mode')

    def __init__(self, none_is_leaf=False, namespace='', pred='none', dict_mode='sorted'):
        self.none_is_leaf = none_is_leaf
        self.namespace = namespace
        self.pred = pred
        self.dict_mode = dict_mode if not (dict_mode == 'ins-ns' and namespace == '') else 'ins-global'

    @property
    def is_leaf(self):
        return PREDICATES[self.pred]

    @property
    def insertion(self):
        return self.dict_mode != 'sorted'

    @property
    def ins_in_current_ns(self):
        return self.dict_mode == 'ins-ns' or (self.dict_mode == 'ins-global' and self.namespace == '')

    def kw(self):
        return dict(is_leaf=self.is_leaf, none_is_leaf=self.none_is_leaf, namespace=self.namespace)

    def kw_nopred(self):
        return dict(none_is_leaf=self.none_is_leaf, namespace=self.namespace)

    @contextlib.contextmanager
    def ctx(self):
        if self.dict_mode == 'sorted':
            yield
        elif self.dict_mode == 'ins-global':
            with optree.dict_insertion_ordered(True, namespace=GLOBAL):
                yield
        else:
            with optree.dict_insertion_ordered(True, namespace=self.namespace):
                yield

    def key(self):
        return (self.none_is_leaf, self.namespace, self.pred, self.dict_mode)

    def __repr__(self):
        return f'Opt(nil={self.none_is_leaf}, ns={self.namespace!r}, pred={self.pred}, dict={self.dict_mode})'

    def ref(self):
        from vf import refmodel

        return refmodel.Opts(self.none_is_leaf, self.namespace, self.is_leaf, self.insertion)


def all_opts(preds=None):
    out = []
    for nil in (False, True):
        for ns in U.NAMESPACES:
            for p in preds or PREDICATES:
                for dm in DICT_MODES:
                    if dm == 'ins-ns' and ns == '':
                        continue
                    out.append(Opt(nil, ns, p, dm))
    return out


def rand_opt(rng, preds=None):
    return Opt(
        rng.random() < 0.4,
        rng.choice(U.NAMESPACES),
        rng.choice(list(preds or PREDICATES)),
        rng.choice(DICT_MODES),
    )


def case_rng(seed, name, index):
    return random.Random(f'{seed}:{name}:{index}')


# ----------------------------------------------------------------------------- edits (pairs)
def substitute_leaves(desc: D, rng, p=0.5, profile='plain', budget=6):
    """Return a *suffix* of desc: some leaves replaced by generated subtrees (leaf -> subtree)."""
    out = desc.copy()
    n_sub = 0
    for node in list(out.walk()):
        for i, c in enumerate(node.children()):
            if c.k == 'leaf' and rng.random() < p:
                sub, _ = gen_desc(rng, profile, budget)
                node.set_child(i, sub)
                n_sub += 1
    if out.k == 'leaf' and rng.random() < p:
        out, _ = gen_desc(rng, profile, budget)
        n_sub += 1
    return out, n_sub


def neutral_edit(desc: D, rng):
    """Edits that keep the prefix relation both ways: dict kind, key order, factory, maxlen."""
    out = desc.copy()
    n = 0
    for node in out.walk():
        if node.k in DICTS:
            r = rng.random()
            if r < 0.5:
                node.k = rng.choice(DICTS)
                node.meta = rng.choice(U.FACTORIES) if node.k == 'ddict' else None
                n += 1
            if rng.random() < 0.7 and len(node.items) > 1:
                rng.shuffle(node.items)
                n += 1
            if rng.random() < 0.3:
                # the same keys spelt in another numeric type (6 -> 6.0, 1 -> True): dict lookup, and therefore every structural relation
                # between two trees, treats them as the same key
                present = {k for k, _ in node.items if isinstance(k, (int, float))}
                for i, (k, ch) in enumerate(node.items):
                    if type(k) is int and abs(k) < 2 ** 53 and rng.random() < 0.6:
                        node.items[i] = (bool(k) if k in (0, 1) and rng.random() < 0.3 else float(k), ch)
                        n += 1
                    elif type(k) is float and k == k and k.is_integer() and abs(k) < 2 ** 53 and rng.random() < 0.6:
                        node.items[i] = (int(k), ch)
                        n += 1
                del present
        elif node.k == 'deque' and rng.random() < 0.6:
            node.meta = rng.choice([None, len(node.items), len(node.items) + 5, 1000])
            n += 1
    return out, n


BREAK_EDITS = ('kind', 'kindx', 'rebracket', 'arity+', 'arity-', 'key', 'ntclass', 'meta', 'node2leaf', 'none2leaf', 'leaf2none', 'none2node')
SEQ_CUSTOM = (U.CSeq, U.CReent, U.CList, U.CShadow, U.CShadow2, U.CUser)  # (CNs / CHist live in a namespace: not used as retarget options)  # custom nodes of any arity built from (kids, meta)


def _var_arity(node):
    return node.k in ('tuple', 'list', 'deque') or (node.k == 'custom' and node.cls in SEQ_CUSTOM)


def _retarget_options(node, rng):
    """Other node types that can hold the same children: (k, cls, meta) triples."""
    n = len(node.items)
    opts = []
    if node.k in ('tuple', 'list', 'deque', 'nt', 'ss') or (node.k == 'custom' and node.cls in SEQ_CUSTOM):
        opts += [('tuple', None, None), ('list', None, None), ('deque', None, rng.choice([None, n + 3]))]
        opts += [('nt', c, None) for c in U.NAMEDTUPLES if len(c._fields) == n]
        opts += [('ss', c, None) for c in U.STRUCTSEQS if U.STRUCTSEQ_ARITY[c] == n]
        opts += [('custom', c, node.meta if node.k == 'custom' else None) for c in SEQ_CUSTOM]
    return [o for o in opts if (o[0], o[1]) != (node.k, node.cls)]


def breaking_edit(desc: D, rng, only=None):  # noqa: C901
    """Exactly one local edit after which ``desc`` is NOT a prefix of the result.
    Returns (new desc, edit name) or (None, None) when no edit applies."""
    out = desc.copy()
    nodes = [n for n in out.walk()]
    rng.shuffle(nodes)
    edits = [e for e in BREAK_EDITS if only is None or e in only]
    rng.shuffle(edits)
    packed = {id(c) for n in nodes if n.k == 'partial' for c in n.items}  # the (args, keywords) containers of a partial keep their types
    for e in edits:
        for node in nodes:
            if e == 'kind' and node.k in ('tuple', 'list'):
                node.k = 'list' if node.k == 'tuple' else 'tuple'
                return out, e
            if e == 'kindx' and id(node) not in packed:
                # any other node type over the same children: sequence <-> deque <-> namedtuple <-> struct sequence <-> custom node,
                # a mapping <-> a custom mapping node / the list of its values
                if node.k in DICTS and node.items:
                    if all(type(k) is str for k, _ in node.items) and rng.random() < 0.5:
                        node.k, node.cls, node.meta, node.keystyle = 'cmap', U.CMap, None, None
                    else:
                        node.items = [c for _, c in node.items]
                        node.k, node.cls, node.meta, node.keystyle = 'list', None, None, None
                    return out, e
                opts = _retarget_options(node, rng)
                if opts:
                    node.k, node.cls, node.meta = rng.choice(opts)
                    return out, e
            if e == 'rebracket' and _var_arity(node) and id(node) not in packed:
                # same nodes, same leaves, same post-order sequence of node types - only the arities differ: P(C(x, y)) -> P(x, C(y))
                for i, c in enumerate(node.items):
                    if _var_arity(c) and c.items and id(c) not in packed:
                        node.items.insert(i, c.items.pop(0))
                        if node.k == 'deque' and node.meta is not None:
                            node.meta = max(node.meta, len(node.items))
                        return out, e
            if e == 'arity+' and node.k in ('tuple', 'list', 'deque', 'dict', 'odict'):
                if node.k in DICTS:
                    all_str = all(type(k) is str for k, _ in node.items)
                    newk = f'extra_key_{rng.randrange(1000)}' if (node.keystyle == 'kw' or all_str) else ('extra-key', rng.randrange(1000))
                    node.items.append((newk, D('leaf', meta='L')))
                else:
                    node.items.append(D('leaf', meta='L'))
                    if node.k == 'deque' and node.meta is not None:
                        node.meta = len(node.items)
                return out, e
            if e == 'arity-' and node.k in ('tuple', 'list', 'deque', 'dict', 'odict', 'ddict') and node.items:
                node.items.pop(rng.randrange(len(node.items)))
                return out, e
            if e == 'key' and node.k in DICTS and node.items:
                i = rng.randrange(len(node.items))
                all_str = all(type(k) is str for k, _ in node.items)
                newk = f'renamed_{rng.randrange(1000)}' if (node.keystyle == 'kw' or all_str) else ('renamed', rng.randrange(1000))
                node.items[i] = (newk, node.items[i][1])
                return out, e
            if e == 'ntclass' and node.k == 'nt' and node.cls in (U.Point, U.PointSub, U.PointMeth):
                node.cls = rng.choice([c for c in (U.Point, U.PointSub, U.PointMeth) if c is not node.cls])
                return out, e
            if e == 'meta' and node.k == 'custom' and node.cls in (U.CSeq, U.CReent, U.CList, U.CUser, U.CShadow, U.CShadow2, U.DCG):
                node.meta = ('changed', rng.randrange(1000))
                return out, e
            if e == 'node2leaf' and node.k != 'partial':
                for i, c in enumerate(node.children()):
                    if c.k not in ('leaf', 'none'):
                        node.set_child(i, D('leaf', meta='L'))
                        return out, e
            if e == 'none2leaf':
                for i, c in enumerate(node.children()):
                    if c.k == 'none':
                        node.set_child(i, D('leaf', meta='L'))
                        return out, e
            if e == 'leaf2none':
                continue
            if e == 'none2node':
                for i, c in enumerate(node.children()):
                    if c.k == 'none':
                        node.set_child(i, D('tuple', []))
                        return out, e
    return None, None
