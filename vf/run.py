"""Worker entry: python -m vf.run <PROP> <tier> <seed> [--shard i]

Runs inside the overlay environment (PYTHONPATH = fresh build of the working tree).
A property module (vf/props/cXX.py) provides:
    LEVEL, RULE, ASSUMPTIONS
    shards(tier, seed) -> list of json-able shard specs   (optional)
    run_shard(sink, tier, seed, shard)
    finalize(sink, tier, seed)                             (optional, parent only)
"""
from __future__ import annotations

import importlib
import json
import os
import subprocess
import sys
import tempfile
import time
from concurrent.futures import ThreadPoolExecutor

from vf import verdict

VERIF = verdict.VERIF
CASE_WATCHDOG_S = 900  # per guarded case, in shard workers


def _dump(sink):
    return dict(
        violations=sink.violations,
        counters=dict(sink.counters),
        cells=dict(sink.cells),
        samples=sink.samples,
        fingerprints=[repr(f) for f in sink.fingerprints],
        nontrivial=[repr(f) for f in sink.nontrivial],
        evaluations=sink.evaluations,
        extra=sink.extra,
        notes=sink.notes,
    )


def _merge(sink, d):
    sink.violations.extend(d['violations'])
    sink.counters.update(d['counters'])
    sink.cells.update(d['cells'])
    for s in d['samples']:
        if len(sink.samples) < sink.max_samples:
            sink.samples.append(s)
    sink.fingerprints.update(d['fingerprints'])
    sink.nontrivial.update(d['nontrivial'])
    sink.evaluations += d['evaluations']
    for k, v in d.get('extra', {}).items():
        if isinstance(v, (int, float)) and isinstance(sink.extra.get(k), (int, float)):
            sink.extra[k] += v
        elif isinstance(v, list) and isinstance(sink.extra.get(k), list):
            sink.extra[k].extend(v)
            del sink.extra[k][50:]
        elif isinstance(v, dict) and isinstance(sink.extra.get(k), dict):
            for kk, vv in v.items():
                if isinstance(vv, (int, float)) and isinstance(sink.extra[k].get(kk), (int, float)):
                    sink.extra[k][kk] += vv
                else:
                    sink.extra[k].setdefault(kk, vv)
        else:
            sink.extra.setdefault(k, v)
    for n in d.get('notes', []):
        if n not in sink.notes:
            sink.notes.append(n)


def main(argv):
    prop, tier, seed = argv[0], argv[1], int(argv[2])
    mod = importlib.import_module(f'vf.props.{prop.lower()}')
    sink = verdict.Sink(prop, tier, seed, mod.LEVEL)
    if '--shard' in argv:
        idx = int(argv[argv.index('--shard') + 1])
        out = argv[argv.index('--out') + 1]
        shard = mod.shards(tier, seed)[idx]
        mod.run_shard(sink, tier, seed, shard)
        with open(out, 'w') as f:
            json.dump(_dump(sink), f, default=str)
        return 0
    shard_list = mod.shards(tier, seed) if hasattr(mod, 'shards') else [None]
    if True:
        # every shard (also a single one) runs in its own interpreter: a crash or an endless loop in the extension ends a worker, not the check
        work = tempfile.mkdtemp(prefix=f'{prop}-', dir=os.path.join(VERIF, '.work'))
        timeout = getattr(mod, 'SHARD_TIMEOUT', 3600)

        def one(i):
            out = os.path.join(work, f'shard{i}.json')
            cmd = [sys.executable, '-m', 'vf.run', prop, tier, str(seed), '--shard', str(i), '--out', out]
            try:
                p = subprocess.run(cmd, capture_output=True, text=True, timeout=timeout, env=dict(os.environ, VERIF_CASE_WATCHDOG=os.environ.get('VERIF_CASE_WATCHDOG', str(CASE_WATCHDOG_S)), VERIF_CASE_FILE=out + '.case'))
                rc, err = p.returncode, (p.stdout[-1500:] + p.stderr[-2500:])
            except subprocess.TimeoutExpired:
                rc, err = 'timeout', ''
            return i, rc, err, out

        with ThreadPoolExecutor(int(os.environ.get('VERIF_JOBS', '16'))) as ex:
            results = list(ex.map(one, range(len(shard_list))))
        for i, rc, err, out in results:
            if rc == 0 and os.path.exists(out):
                with open(out) as f:
                    _merge(sink, json.load(f))
            elif rc != 'timeout' and 'Timeout (' in err and os.path.exists(out + '.case'):
                # the per-case watchdog fired: wall-clock, so never a verdict
                with open(out + '.case', 'rb') as cf:
                    last_case = cf.read().decode('utf-8', 'replace').strip()
                sink.count('case_watchdogs')
                sink.notes.append(f'shard {i}: a case did not finish within {CASE_WATCHDOG_S}s (inconclusive for that shard): {last_case} :: ' + err[-1200:])
                sink.require('no_case_watchdog_marker', 1)
            elif rc == 'timeout':
                sink.count('shard_timeouts')
                sink.notes.append(f'shard {i} hit the wall-clock watchdog ({timeout}s): inconclusive for that shard')
                sink.require('no_shard_timeouts_marker', 1)
            else:
                sink.violation(
                    f'worker-death/rc={rc}', 'worker process must not die', dict(shard=shard_list[i], index=i), err
                )
        import shutil

        shutil.rmtree(work, ignore_errors=True)
    if hasattr(mod, 'finalize'):
        mod.finalize(sink, tier, seed)
    return sink.finish(mod.RULE, getattr(mod, 'ASSUMPTIONS', ()), getattr(mod, 'EXHAUSTIVE', False))


if __name__ == '__main__':
    sys.exit(main(sys.argv[1:]))
