"""Executable reference of the *documented* pytree semantics (README), independent of the engine.

It never calls optree's flatten/treespec machinery.  Custom node behaviour comes from the
harness's own registration table (vf.universe.REG), dataclass/partial behaviour from the docs.

Shape = nested record:
    Shape(kind, type, meta, entries, children, orig_keys)
      kind in {'leaf','none','tuple','list','dict','ordereddict','defaultdict','deque',
               'namedtuple','structseq','custom'}
      meta: namedtuple/structseq class | deque maxlen | defaultdict factory | custom metadata
      entries: tuple of path entries to the children (keys for dicts *in child order*)
      orig_keys: insertion-order keys for dict/defaultdict (None otherwise)
      reg: the universe registration record for custom nodes
"""
from __future__ import annotations

import dataclasses
from collections import OrderedDict, defaultdict, deque
from collections.abc import Mapping, Sequence
from typing import Any

import optree  # only for entry classes / PyTreeKind names; no engine calls

from vf import universe as U


@dataclasses.dataclass
class Shape:
    kind: str
    type: Any = None
    meta: Any = None
    entries: tuple = ()
    children: list = dataclasses.field(default_factory=list)
    orig_keys: Any = None
    reg: Any = None

    # ---- derived quantities
    @property
    def num_leaves(self):
        if self.kind == 'leaf':
            return 1
        return sum(c.num_leaves for c in self.children)

    @property
    def num_nodes(self):
        return 1 + sum(c.num_nodes for c in self.children)

    @property
    def arity(self):
        return len(self.children)

    def depth(self):
        return 1 + max((c.depth() for c in self.children), default=0)

    def internal_nodes(self):
        return (0 if self.kind == 'leaf' else 1) + sum(c.internal_nodes() for c in self.children)

    def kinds(self, acc=None):
        acc = set() if acc is None else acc
        acc.add(self.kind)
        for c in self.children:
            c.kinds(acc)
        return acc


LEAF = Shape('leaf')


def is_namedtuple_class(t):
    return (
        isinstance(t, type)
        and issubclass(t, tuple)
        and type(getattr(t, '_fields', None)) is tuple
        and all(type(f) is str for f in t._fields)
        and callable(getattr(t, '_make', None))
        and callable(getattr(t, '_asdict', None))
    )


def is_structseq_class(t):
    return (
        isinstance(t, type)
        and t.__bases__ == (tuple,)
        and isinstance(getattr(t, 'n_fields', None), int)
        and isinstance(getattr(t, 'n_sequence_fields', None), int)
        and isinstance(getattr(t, 'n_unnamed_fields', None), int)
        and not (t.__flags__ & (1 << 10))
    )


class SortInfo:
    """How the documented key ordering was obtained for one dict (for preconditions)."""

    __slots__ = ('stage',)

    def __init__(self, stage):
        self.stage = stage  # 1 plain sort, 2 (typename, key) sort, 3 insertion order


def total_order(keys):
    """README 'Key Ordering for Dictionaries': sorted(keys); else by (type name, key); else insertion."""
    keys = list(keys)
    try:
        return sorted(keys), 1
    except TypeError:
        pass
    try:
        return sorted(keys, key=lambda k: (f'{k.__class__.__module__}.{k.__class__.__qualname__}', k)), 2
    except TypeError:
        return keys, 3


class Opts:
    __slots__ = ('none_is_leaf', 'namespace', 'is_leaf', 'dict_insertion')

    def __init__(self, none_is_leaf=False, namespace='', is_leaf=None, dict_insertion=False):
        self.none_is_leaf = none_is_leaf
        self.namespace = namespace
        self.is_leaf = is_leaf
        self.dict_insertion = dict_insertion


class RefResult:
    __slots__ = ('leaves', 'shape', 'sort_stages', 'found_custom', 'pred_calls')

    def __init__(self):
        self.leaves = []
        self.sort_stages = []
        self.found_custom = False
        self.pred_calls = 0


def flatten(tree, o: Opts, max_depth=None):
    """Reference flatten -> RefResult(leaves, shape)."""
    res = RefResult()
    res.shape = _flatten(tree, o, res, 0)
    return res


def _flatten(x, o, res, depth):  # noqa: C901
    if o.is_leaf is not None:
        res.pred_calls += 1
        if o.is_leaf(x):
            res.leaves.append(x)
            return Shape('leaf')
    t = type(x)
    reg = U.lookup(t, o.namespace)
    if reg is not None:
        res.found_custom = True
        children, meta, entries = reg['flatten'](x)
        children = list(children)
        entries = tuple(range(len(children))) if entries is None else tuple(entries)
        sh = Shape('custom', t, meta, entries, [], None, reg)
        for c in children:
            sh.children.append(_flatten(c, o, res, depth + 1))
        return sh
    if x is None:
        if o.none_is_leaf:
            res.leaves.append(x)
            return Shape('leaf')
        return Shape('none', type(None))
    if t is tuple:
        sh = Shape('tuple', tuple, None, tuple(range(len(x))))
        sh.children = [_flatten(c, o, res, depth + 1) for c in x]
        return sh
    if t is list:
        sh = Shape('list', list, None, tuple(range(len(x))))
        sh.children = [_flatten(c, o, res, depth + 1) for c in x]
        return sh
    if t is deque:
        sh = Shape('deque', deque, x.maxlen, tuple(range(len(x))))
        sh.children = [_flatten(c, o, res, depth + 1) for c in x]
        return sh
    if t is OrderedDict:
        keys = list(x)
        sh = Shape('ordereddict', OrderedDict, None, tuple(keys))
        sh.children = [_flatten(x[k], o, res, depth + 1) for k in keys]
        return sh
    if t is dict or t is defaultdict:
        orig = list(x)
        if o.dict_insertion:
            keys = orig
        else:
            keys, stage = total_order(orig)
            res.sort_stages.append(stage)
        kind = 'dict' if t is dict else 'defaultdict'
        sh = Shape(kind, t, x.default_factory if t is defaultdict else None, tuple(keys), [], orig)
        sh.children = [_flatten(x[k], o, res, depth + 1) for k in keys]
        return sh
    if is_structseq_class(t):
        sh = Shape('structseq', t, t, tuple(range(len(x))))
        sh.children = [_flatten(c, o, res, depth + 1) for c in x]
        return sh
    if is_namedtuple_class(t):
        sh = Shape('namedtuple', t, t, tuple(range(len(x))))
        sh.children = [_flatten(c, o, res, depth + 1) for c in x]
        return sh
    res.leaves.append(x)
    return Shape('leaf')


# --------------------------------------------------------------------------- derived views
def paths(sh: Shape, prefix=()):
    if sh.kind == 'leaf':
        return [prefix]
    out = []
    for e, c in zip(sh.entries, sh.children):
        out.extend(paths(c, prefix + (e,)))
    return out


def expected_entry_class(sh: Shape):
    """Documented entry class for the children of node ``sh``."""
    k = sh.kind
    if k in ('tuple', 'list', 'deque'):
        return optree.SequenceEntry
    if k in ('dict', 'ordereddict', 'defaultdict'):
        return optree.MappingEntry
    if k == 'namedtuple':
        return optree.NamedTupleEntry
    if k == 'structseq':
        return optree.StructSequenceEntry
    if k == 'custom':
        et = sh.reg['entry']
        if et is optree.AutoEntry:
            t = sh.type
            if is_structseq_class(t):
                return optree.StructSequenceEntry
            if is_namedtuple_class(t):
                return optree.NamedTupleEntry
            if dataclasses.is_dataclass(t):
                return optree.DataclassEntry
            if issubclass(t, Mapping):
                return optree.MappingEntry
            if issubclass(t, Sequence):
                return optree.SequenceEntry
            return optree.FlattenedEntry
        return et
    raise AssertionError(k)


KIND_NAME = {
    'custom': 'CUSTOM',
    'leaf': 'LEAF',
    'none': 'NONE',
    'tuple': 'TUPLE',
    'list': 'LIST',
    'dict': 'DICT',
    'namedtuple': 'NAMEDTUPLE',
    'ordereddict': 'ORDEREDDICT',
    'defaultdict': 'DEFAULTDICT',
    'deque': 'DEQUE',
    'structseq': 'STRUCTSEQUENCE',
}


def typed_paths(sh: Shape, prefix=()):
    """[(entry, expected entry class, node type, kind name), ...] per leaf."""
    if sh.kind == 'leaf':
        return [prefix]
    out = []
    if sh.kind == 'none':
        return out
    cls = expected_entry_class(sh)
    for e, c in zip(sh.entries, sh.children):
        out.extend(typed_paths(c, prefix + ((e, cls, sh.type, KIND_NAME[sh.kind]),)))
    return out


def render(sh: Shape):  # noqa: C901
    """The documented repr notation of a treespec body."""
    k = sh.kind
    ch = [render(c) for c in sh.children]
    if k == 'leaf':
        return '*'
    if k == 'none':
        return 'None'
    if k == 'tuple':
        return '(' + ', '.join(ch) + (',' if len(ch) == 1 else '') + ')'
    if k == 'list':
        return '[' + ', '.join(ch) + ']'
    if k == 'dict':
        return '{' + ', '.join(f'{e!r}: {c}' for e, c in zip(sh.entries, ch)) + '}'
    if k == 'ordereddict':
        if not ch:
            return 'OrderedDict()'
        return 'OrderedDict({' + ', '.join(f'{e!r}: {c}' for e, c in zip(sh.entries, ch)) + '})'
    if k == 'defaultdict':
        return f'defaultdict({sh.meta!r}, {{' + ', '.join(f'{e!r}: {c}' for e, c in zip(sh.entries, ch)) + '})'
    if k == 'deque':
        return 'deque([' + ', '.join(ch) + ']' + (f', maxlen={sh.meta!r}' if sh.meta is not None else '') + ')'
    if k == 'namedtuple':
        return sh.type.__name__ + '(' + ', '.join(f'{f}={c}' for f, c in zip(sh.type._fields, ch)) + ')'
    if k == 'structseq':
        t = sh.type
        mod = getattr(t, '__module__', '__main__')
        head = '' if mod in ('', '__main__', 'builtins', '__builtins__', None) else f'{mod}.'
        fields = [n for n, m in vars(t).items() if type(m).__name__ == 'member_descriptor'][: t.n_sequence_fields]
        return head + t.__qualname__ + '(' + ', '.join(f'{f}={c}' for f, c in zip(fields, ch)) + ')'
    if k == 'custom':
        return f'CustomTreeNode({sh.type.__name__}[{sh.meta!r}], [' + ', '.join(ch) + '])'
    raise AssertionError(k)


def render_spec(sh: Shape, none_is_leaf: bool, namespace: str):
    s = 'PyTreeSpec(' + render(sh)
    if none_is_leaf:
        s += ', NoneIsLeaf'
    if namespace:
        s += f', namespace={namespace!r}'
    return s + ')'


def expected_namespace(res: RefResult, o: Opts, ins_in_current_ns: bool):
    """Namespace recorded on the treespec: only when a custom node was met or the namespace
    itself (not inherited from global) is insertion-ordered."""
    return o.namespace if (res.found_custom or ins_in_current_ns) else ''


# --------------------------------------------------------------------------- structure relations
def _dictish(k):
    return k in ('dict', 'ordereddict', 'defaultdict')


def node_matches(a: Shape, b: Shape):
    """Do nodes a and b (both internal) match for the *prefix* relation (children aside)?

    Returns (ok, perm) where perm maps a-child index -> b-child index.
    """
    if _dictish(a.kind):
        if not _dictish(b.kind) or len(a.entries) != len(b.entries):
            return False, None
        try:
            pos = {}
            for j, k in enumerate(b.entries):
                pos[k] = j
            perm = [pos[k] for k in a.entries]
        except KeyError:
            return False, None
        return True, perm
    if a.kind != b.kind:
        return False, None
    if len(a.children) != len(b.children):
        return False, None
    if a.kind in ('namedtuple', 'structseq') and a.type is not b.type:
        return False, None
    if a.kind == 'custom':
        if a.reg is not b.reg:
            return False, None
        if not (a.meta == b.meta):
            return False, None
    return True, list(range(len(a.children)))


def is_prefix(a: Shape, b: Shape):
    """a is a structural prefix of b (documented: leaves of a may be replaced by subtrees)."""
    if a.kind == 'leaf':
        return True
    if b.kind == 'leaf':
        return False
    if a.kind == 'none':
        return b.kind == 'none'
    ok, perm = node_matches(a, b)
    if not ok:
        return False
    return all(is_prefix(ca, b.children[j]) for ca, j in zip(a.children, perm))


def strictly_more(a: Shape, b: Shape):
    """Given a <= b: does b have a non-leaf node where a has a leaf?"""
    if a.kind == 'leaf':
        return b.kind != 'leaf'
    if a.kind == 'none':
        return False
    _, perm = node_matches(a, b)
    return any(strictly_more(ca, b.children[j]) for ca, j in zip(a.children, perm))


def subtrees_up_to(a: Shape, tree_b, sh_b: Shape, getter):
    """Reference flatten_up_to: for each leaf of a (in a's order) the subtree object of tree_b.

    ``getter(tree_obj, shape, child_index)`` returns the child object of a tree node.
    """
    if a.kind == 'leaf':
        return [tree_b]
    if a.kind == 'none':
        return []
    _, perm = node_matches(a, sh_b)
    out = []
    for ca, j in zip(a.children, perm):
        out.extend(subtrees_up_to(ca, getter(tree_b, sh_b, j), sh_b.children[j], getter))
    return out


def equal_shapes(a: Shape, b: Shape):
    """Documented treespec equality on shapes (same none_is_leaf/namespaces checked by caller)."""
    if a.kind != b.kind or len(a.children) != len(b.children):
        return False
    if a.kind in ('namedtuple', 'structseq') and a.type is not b.type:
        return False
    if a.kind == 'deque' and a.meta != b.meta:
        return False
    if a.kind == 'defaultdict' and not (a.meta is b.meta or a.meta == b.meta):
        return False
    if _dictish(a.kind):
        if len(a.entries) != len(b.entries) or not all(x is y or x == y for x, y in zip(a.entries, b.entries)):
            return False
    if a.kind == 'custom':
        if a.reg is not b.reg or not (a.meta == b.meta):
            return False
    return all(equal_shapes(x, y) for x, y in zip(a.children, b.children))


def lub(a: Shape, b: Shape):
    """Least common suffix (broadcast) of two shapes, keeping a's node data; raises ValueError."""
    if a.kind == 'leaf':
        return b
    if b.kind == 'leaf':
        return a
    if a.kind == 'none' or b.kind == 'none':
        if a.kind == b.kind:
            return a
        raise ValueError('none mismatch')
    ok, perm = node_matches(a, b)
    if not ok:
        raise ValueError('node mismatch')
    out = dataclasses.replace(a, children=[lub(ca, b.children[j]) for ca, j in zip(a.children, perm)])
    return out


def compose(a: Shape, b: Shape):
    if a.kind == 'leaf':
        return b
    return dataclasses.replace(a, children=[compose(c, b) for c in a.children])


def child_object(tree_obj, sh: Shape, j):
    """The j-th child *object* (in shape child order) of a real tree node."""
    k = sh.kind
    if k in ('tuple', 'list', 'deque', 'namedtuple', 'structseq'):
        return tree_obj[j]
    if _dictish(k):
        return tree_obj[sh.entries[j]]
    if k == 'custom':
        return list(sh.reg['flatten'](tree_obj)[0])[j]
    raise AssertionError(k)
