"""Importable universe of node kinds, leaves and registrations used by every workload.

Importing this module *is* the "same registrations" history (C11): every registration below
is made at import time, by module path, so pickles resolve in a fresh interpreter.

The table ``REG`` is the harness's own record of what it registered: the reference model
(vf/refmodel.py) consults it instead of optree's registry.
"""
from __future__ import annotations

import collections
import os
import warnings
import sys
import time
from collections import OrderedDict, UserDict, defaultdict, deque, namedtuple
from typing import Any, NamedTuple

import optree
from optree.registry import __GLOBAL_NAMESPACE as GLOBAL

NS = 'vf'  # the namespace with registrations
NS_OTHER = 'vf2'  # a second non-global namespace
NS_UNKNOWN = 'unk'  # a namespace nobody registers in
NAMESPACES = ('', NS, NS_UNKNOWN)


# ----------------------------------------------------------------------------- callback hook
# Every callback the harness hands to optree starts with tick(site, obj).  Monitors install a
# hook (fault injector, call recorder, scheduler yield point); None = no-op.
HOOK = [None]


def tick(site, obj=None):
    h = HOOK[0]
    if h is not None:
        h(site, obj)


# ----------------------------------------------------------------------------- leaves
class Leaf:
    """Unique, weakref-able opaque leaf (identity is its value)."""

    __slots__ = ('i', '__weakref__')

    def __init__(self, i):
        self.i = i

    def __repr__(self):
        return f'L{self.i}'


class ListSub(list):
    pass


class TupleSub(tuple):
    pass


class DictSub(dict):
    pass


class ODictSub(OrderedDict):
    pass


class DDictSub(defaultdict):
    pass


class DequeSub(deque):
    pass


class FakeNT(tuple):
    """tuple subclass with _fields but no _make/_asdict: NOT a namedtuple -> leaf."""

    _fields = ('a', 'b')


class PlainUserDict(UserDict):
    """Unregistered UserDict: leaf."""


# ----------------------------------------------------------------------------- namedtuples
Point = namedtuple('Point', ['x', 'y'])
Empty = namedtuple('Empty', [])
One = namedtuple('One', ['only'])


class Typed(NamedTuple):
    a: Any
    b: Any
    c: Any = 0


class PointSub(Point):
    """subclass of a namedtuple: still a namedtuple (node), distinct class."""

    __slots__ = ()


class PointMeth(Point):
    __slots__ = ()

    def norm(self):
        return 0


NAMEDTUPLES = (Point, Empty, One, Typed, PointSub, PointMeth)

# struct sequences that can be instantiated from python (n_sequence_fields items)
STRUCTSEQS = (
    os.terminal_size,  # 2
    type(sys.thread_info),  # 3
    type(sys.int_info),  # 4
    os.times_result,  # 5
    time.struct_time,  # 9 (+2 extra non sequence fields)
    os.stat_result,  # 10 (+ non-sequence)
)
STRUCTSEQ_ARITY = {t: t.n_sequence_fields for t in STRUCTSEQS}
STRUCTSEQS_NOINST = (type(sys.flags), type(sys.version_info))


def named_factory():
    """A module-level (picklable) default_factory."""
    return 0


FACTORIES = (None, int, list, named_factory)


# ----------------------------------------------------------------------------- custom nodes
class CBase:
    """Common shape of the harness-owned custom containers: ordered kids + metadata."""

    __slots__ = ('kids', 'meta', '__weakref__')

    def __init__(self, kids=(), meta=None):
        self.kids = list(kids)
        self.meta = meta

    def __repr__(self):
        return f'{type(self).__name__}({self.kids!r}, meta={self.meta!r})'

    def __getitem__(self, i):  # FlattenedEntry / SequenceEntry style access
        return self.kids[i]

    # structural identity helper used by vf.same
    def _same_parts(self):
        return (self.meta, self.kids)


# REG[(namespace, cls)] = dict(flatten=callable(obj)->(children list, metadata, entries or None),
#                              unflatten=callable(metadata, children)->obj,
#                              entry=path_entry_type registered, tag=unique id)
REG: dict = {}
_TAG = [0]


def _record(ns, cls, flatten, unflatten, entry):
    _TAG[0] += 1
    REG[(ns, cls)] = dict(flatten=flatten, unflatten=unflatten, entry=entry, tag=_TAG[0], cls=cls, ns=ns)


def lookup(cls, namespace):
    """The documented lookup: the namespace first, then the global namespace."""
    if namespace:
        r = REG.get((namespace, cls))
        if r is not None:
            return r
    return REG.get(('', cls))


# --- 1. class-registered, global, 2-tuple, default entries, AutoEntry -> FlattenedEntry
@optree.register_pytree_node_class(namespace=GLOBAL)
class CSeq(CBase):
    __slots__ = ()

    def tree_flatten(self):
        tick('flatten:CSeq', self)
        return tuple(self.kids), ('CSeq', self.meta)

    @classmethod
    def tree_unflatten(cls, metadata, children):
        tick('unflatten:CSeq', metadata)
        return cls(children, metadata[1])


_record('', CSeq, lambda o: (list(o.kids), ('CSeq', o.meta), None), CSeq.tree_unflatten, optree.AutoEntry)


# --- 1b. re-entrant custom node: its flatten and unflatten functions call back into optree (the FlatCache pattern of user code)
class CReent(CBase):
    __slots__ = ()


def _creent_flatten(o):
    tick('flatten:CReent', o)
    optree.tree_flatten((len(o.kids), [None]))  # a re-entrant flatten in the middle of the outer one
    return list(o.kids), ('CReent', o.meta), None


def _creent_unflatten(metadata, children):
    tick('unflatten:CReent', metadata)
    children = list(children)
    spec = optree.tree_structure(tuple(range(len(children))))  # re-entrant flatten ...
    rebuilt = optree.tree_unflatten(spec, children)  # ... and re-entrant unflatten with a list of leaves
    return CReent(rebuilt, metadata[1])


optree.register_pytree_node(CReent, _creent_flatten, _creent_unflatten, namespace=GLOBAL)
_record('', CReent, lambda o: (list(o.kids), ('CReent', o.meta), None), _creent_unflatten, optree.AutoEntry)


# --- 2. function-registered, global, 3-tuple with None entries, children as list, SequenceEntry
class CList(CBase):
    __slots__ = ()


def _clist_flatten(o):
    tick('flatten:CList', o)
    return list(o.kids), ('CList', o.meta), None


def _clist_unflatten(metadata, children):
    tick('unflatten:CList', metadata)
    return CList(children, metadata[1])


optree.register_pytree_node(
    CList, _clist_flatten, _clist_unflatten, path_entry_type=optree.SequenceEntry, namespace=GLOBAL
)
_record('', CList, lambda o: (list(o.kids), ('CList', o.meta), None), _clist_unflatten, optree.SequenceEntry)


# --- 3. mapping-like, explicit string entries, children as generator, MappingEntry
class CMap(CBase):
    __slots__ = ('names',)

    def __init__(self, kids=(), meta=None, names=None):
        super().__init__(kids, meta)
        self.names = tuple(names) if names is not None else tuple(f'k{i}' for i in range(len(self.kids)))
        assert len(self.names) == len(self.kids)

    def __getitem__(self, name):
        return self.kids[self.names.index(name)]

    def __repr__(self):
        return f'CMap({dict(zip(self.names, self.kids))!r}, meta={self.meta!r})'

    def _same_parts(self):
        return ((self.meta, self.names), self.kids)


def _cmap_flatten(o):
    tick('flatten:CMap', o)
    return (k for k in o.kids), ('CMap', o.meta, o.names), o.names


def _cmap_unflatten(metadata, children):
    tick('unflatten:CMap', metadata)
    return CMap(children, metadata[1], metadata[2])


optree.register_pytree_node(
    CMap, _cmap_flatten, _cmap_unflatten, path_entry_type=optree.MappingEntry, namespace=GLOBAL
)
_record('', CMap, lambda o: (list(o.kids), ('CMap', o.meta, o.names), o.names), _cmap_unflatten, optree.MappingEntry)


# --- 4. attribute access, GetAttrEntry, fixed arity 2
class CAttr:
    __slots__ = ('left', 'right', 'meta', '__weakref__')

    def __init__(self, left, right, meta=None):
        self.left = left
        self.right = right
        self.meta = meta

    def __repr__(self):
        return f'CAttr({self.left!r}, {self.right!r}, meta={self.meta!r})'

    def _same_parts(self):
        return (self.meta, [self.left, self.right])


def _cattr_flatten(o):
    tick('flatten:CAttr', o)
    return (o.left, o.right), ('CAttr', o.meta), ('left', 'right')


def _cattr_unflatten(metadata, children):
    tick('unflatten:CAttr', metadata)
    left, right = children
    return CAttr(left, right, metadata[1])


optree.register_pytree_node(
    CAttr, _cattr_flatten, _cattr_unflatten, path_entry_type=optree.GetAttrEntry, namespace=GLOBAL
)
_record('', CAttr, lambda o: ([o.left, o.right], ('CAttr', o.meta), ('left', 'right')), _cattr_unflatten, optree.GetAttrEntry)


# --- 5. registered only in namespace NS (leaf elsewhere)
@optree.register_pytree_node_class(namespace=NS)
class CNs(CBase):
    __slots__ = ()

    def tree_flatten(self):
        tick('flatten:CNs', self)
        return self.kids, ('CNs', self.meta), None

    @classmethod
    def tree_unflatten(cls, metadata, children):
        tick('unflatten:CNs', metadata)
        return cls(children, metadata[1])


_record(NS, CNs, lambda o: (list(o.kids), ('CNs', o.meta), None), CNs.tree_unflatten, optree.AutoEntry)


# --- 6. registered globally and in NS with different behaviour (shadowing)
class CShadow(CBase):
    __slots__ = ()


def _cshadow_g_flatten(o):
    tick('flatten:CShadow/global', o)
    return tuple(o.kids), ('CShadow/global', o.meta)


def _cshadow_g_unflatten(metadata, children):
    tick('unflatten:CShadow/global', metadata)
    return CShadow(children, metadata[1])


def _cshadow_ns_flatten(o):
    tick('flatten:CShadow/vf', o)
    n = len(o.kids)
    return tuple(reversed(o.kids)), ('CShadow/vf', o.meta), tuple(range(n - 1, -1, -1))


def _cshadow_ns_unflatten(metadata, children):
    tick('unflatten:CShadow/vf', metadata)
    return CShadow(reversed(list(children)), metadata[1])


optree.register_pytree_node(CShadow, _cshadow_g_flatten, _cshadow_g_unflatten, namespace=GLOBAL)
optree.register_pytree_node(
    CShadow, _cshadow_ns_flatten, _cshadow_ns_unflatten, path_entry_type=optree.SequenceEntry, namespace=NS
)
_record('', CShadow, lambda o: (list(o.kids), ('CShadow/global', o.meta), None), _cshadow_g_unflatten, optree.AutoEntry)
_record(
    NS,
    CShadow,
    lambda o: (list(reversed(o.kids)), ('CShadow/vf', o.meta), tuple(range(len(o.kids) - 1, -1, -1))),
    _cshadow_ns_unflatten,
    optree.SequenceEntry,
)


# --- 6b. the same kind of shadowing with the registrations made in the other order: namespace first, global afterwards
class CShadow2(CBase):
    __slots__ = ()


def _cshadow2_g_flatten(o):
    tick('flatten:CShadow2/global', o)
    return tuple(o.kids), ('CShadow2/global', o.meta)


def _cshadow2_g_unflatten(metadata, children):
    tick('unflatten:CShadow2/global', metadata)
    return CShadow2(children, metadata[1])


def _cshadow2_ns_flatten(o):
    tick('flatten:CShadow2/vf', o)
    n = len(o.kids)
    return tuple(reversed(o.kids)), ('CShadow2/vf', o.meta), tuple(range(n - 1, -1, -1))


def _cshadow2_ns_unflatten(metadata, children):
    tick('unflatten:CShadow2/vf', metadata)
    return CShadow2(reversed(list(children)), metadata[1])


optree.register_pytree_node(
    CShadow2, _cshadow2_ns_flatten, _cshadow2_ns_unflatten, path_entry_type=optree.SequenceEntry, namespace=NS
)
optree.register_pytree_node(CShadow2, _cshadow2_g_flatten, _cshadow2_g_unflatten, namespace=GLOBAL)
_record('', CShadow2, lambda o: (list(o.kids), ('CShadow2/global', o.meta), None), _cshadow2_g_unflatten, optree.AutoEntry)
_record(
    NS,
    CShadow2,
    lambda o: (list(reversed(o.kids)), ('CShadow2/vf', o.meta), tuple(range(len(o.kids) - 1, -1, -1))),
    _cshadow2_ns_unflatten,
    optree.SequenceEntry,
)


# --- 6c. a registration HISTORY behind a type that is, in the end, registered in NS only: it was also registered in two other named
#         namespaces and globally, and unregistered there again (in that order) before any workload runs
class CHist(CBase):
    __slots__ = ()


def _chist_flatten(o):
    tick('flatten:CHist', o)
    return tuple(o.kids), ('CHist', o.meta), None


def _chist_other_flatten(o):
    return (), ('CHist/other', None), None


def _chist_unflatten(metadata, children):
    tick('unflatten:CHist', metadata)
    return CHist(children, metadata[1])


HISTORY_ERRORS = []  # steps of the set-up history that did not behave (reported as violations by C02; the workloads still run)
for _step, _ns, _fl in (('register', 'vf-hist-a', _chist_other_flatten), ('register', NS, _chist_flatten), ('register', 'vf-hist-b', _chist_other_flatten),
                        ('register', GLOBAL, _chist_other_flatten), ('unregister', 'vf-hist-b', None), ('unregister', GLOBAL, None), ('unregister', 'vf-hist-a', None)):
    try:
        if _step == 'register':
            optree.register_pytree_node(CHist, _fl, _chist_unflatten, namespace=_ns)
        else:
            optree.unregister_pytree_node(CHist, namespace=_ns)
    except Exception as _e:  # noqa: BLE001
        HISTORY_ERRORS.append(f'{_step}(CHist, namespace={_ns!r}) raised {type(_e).__name__}: {_e}')
_record(NS, CHist, lambda o: (list(o.kids), ('CHist', o.meta), None), _chist_unflatten, optree.AutoEntry)


# --- 6d. a struct-sequence TYPE registered explicitly (in NS only): the registration takes precedence over the built-in struct-sequence
#         handling there; everywhere else os.times_result stays an ordinary struct-sequence node
def _ss_custom_flatten(o):
    tick('flatten:times_result/vf', o)
    n = len(o)
    # children handed over by a generator, in reverse field order, each addressed by its real index
    return (x for x in reversed(tuple(o))), ('times_result/vf',), tuple(range(n - 1, -1, -1))


def _ss_custom_unflatten(metadata, children):
    tick('unflatten:times_result/vf', metadata)
    return os.times_result(tuple(reversed(list(children))))


with warnings.catch_warnings():
    warnings.simplefilter('ignore')
    optree.register_pytree_node(os.times_result, _ss_custom_flatten, _ss_custom_unflatten, path_entry_type=optree.SequenceEntry, namespace=NS)
_record(NS, os.times_result, lambda o: (list(reversed(tuple(o))), ('times_result/vf',), tuple(range(len(o) - 1, -1, -1))), _ss_custom_unflatten, optree.SequenceEntry)


# --- 7. user-defined PyTreeEntry subclass, tuple entries
class MyEntry(optree.PyTreeEntry):
    __slots__ = ()

    def __call__(self, obj):
        return obj.kids[self.entry[1]]

    def codify(self, node=''):
        return f'{node}.kids[{self.entry[1]!r}]'


class CUser(CBase):
    __slots__ = ()


def _cuser_flatten(o):
    tick('flatten:CUser', o)
    return o.kids, ('CUser', o.meta), [('e', i) for i in range(len(o.kids))]


def _cuser_unflatten(metadata, children):
    tick('unflatten:CUser', metadata)
    return CUser(children, metadata[1])


optree.register_pytree_node(CUser, _cuser_flatten, _cuser_unflatten, path_entry_type=MyEntry, namespace=GLOBAL)
_record(
    '',
    CUser,
    lambda o: (list(o.kids), ('CUser', o.meta), tuple(('e', i) for i in range(len(o.kids)))),
    _cuser_unflatten,
    MyEntry,
)


# --- 8. UserDict subclass, children as dict-values view, AutoEntry -> MappingEntry
class UDict(UserDict):
    def _same_parts(self):
        return (tuple(self.data), list(self.data.values()))


def _udict_flatten(o):
    tick('flatten:UDict', o)
    return o.data.values(), ('UDict', tuple(o.data)), tuple(o.data)


def _udict_unflatten(metadata, children):
    tick('unflatten:UDict', metadata)
    return UDict(zip(metadata[1], children))


optree.register_pytree_node(UDict, _udict_flatten, _udict_unflatten, namespace=GLOBAL)
_record('', UDict, lambda o: (list(o.data.values()), ('UDict', tuple(o.data)), tuple(o.data)), _udict_unflatten, optree.AutoEntry)


# --- 9. optree dataclasses (namespace NS and global)
@optree.dataclasses.dataclass(namespace=NS)
class DC:
    x: Any
    y: Any
    z: Any = optree.dataclasses.field(default=0, pytree_node=False)

    def _same_parts(self):
        return (self.z, [self.x, self.y])


@optree.dataclasses.dataclass(namespace=GLOBAL, frozen=True)
class DCG:
    p: Any
    tag: Any = optree.dataclasses.field(default='t', pytree_node=False)
    q: Any = None

    def _same_parts(self):
        return (self.tag, [self.p, self.q])


_record(NS, DC, lambda o: ([o.x, o.y], (('z', o.z),), ('x', 'y')), lambda m, c: DC(*c, **dict(m)), optree.DataclassEntry)
_record(
    '',
    DCG,
    lambda o: ([o.p, o.q], (('tag', o.tag),), ('p', 'q')),
    lambda m, c: DCG(p=c[0], q=c[1], **dict(m)),
    optree.DataclassEntry,
)


# --- 11. a plain dataclasses.dataclass registered by hand: default entries 0..n-1, AutoEntry -> DataclassEntry
#         (integer entries index the *init* fields; a non-init field sits between them)
import dataclasses as _dc  # noqa: E402


@_dc.dataclass
class PDC:
    a: Any
    derived: Any = _dc.field(init=False, default='derived-non-init')
    b: Any = None
    c: Any = 0

    def _same_parts(self):
        return (None, [self.a, self.b, self.c])


def _pdc_flatten(o):
    tick('flatten:PDC', o)
    return (o.a, o.b, o.c), None


def _pdc_unflatten(metadata, children):
    tick('unflatten:PDC', metadata)
    return PDC(*children)


optree.register_pytree_node(PDC, _pdc_flatten, _pdc_unflatten, namespace=GLOBAL)
_record('', PDC, lambda o: ([o.a, o.b, o.c], None, None), _pdc_unflatten, optree.AutoEntry)


# --- 10. optree.functools.partial (registered globally by optree itself)
def rec_fn(*args, **kwargs):
    """A module-level callable for partials (records nothing; identity of args matters)."""
    return (args, kwargs)


def _partial_flatten(o):
    return [o.args, o.keywords], o.func, ('args', 'keywords')


_record('', optree.functools.partial, _partial_flatten, optree.functools.partial.tree_unflatten, optree.GetAttrEntry)

CUSTOM_GLOBAL = (CSeq, CReent, CList, CMap, CAttr, CShadow, CShadow2, CUser, UDict, DCG, PDC)
CUSTOM_NS = (CNs, DC, CHist)
LEAF_SUBCLASSES = (ListSub, TupleSub, DictSub, ODictSub, DDictSub, DequeSub)


def is_custom_type(cls):
    return any(k[1] is cls for k in REG)


# ----------------------------------------------------------------------------- malformed custom nodes
# Registered in their own namespace so that no other workload ever meets them.
NS_BAD = 'vfbad'


class BadBase(CBase):
    __slots__ = ()


def _mk_bad(name, flatten):
    cls = type(name, (BadBase,), {'__slots__': ()})
    optree.register_pytree_node(cls, flatten, lambda m, c: cls(c, m), namespace=NS_BAD)
    return cls


Bad1Tuple = _mk_bad('Bad1Tuple', lambda o: (tuple(o.kids),))
Bad4Tuple = _mk_bad('Bad4Tuple', lambda o: (tuple(o.kids), None, None, None))
BadChildrenNonIter = _mk_bad('BadChildrenNonIter', lambda o: (7, None))
BadEntriesShort = _mk_bad('BadEntriesShort', lambda o: (tuple(o.kids), None, tuple(range(len(o.kids) - 1))))
BadEntriesLong = _mk_bad('BadEntriesLong', lambda o: (tuple(o.kids), None, tuple(range(len(o.kids) + 1))))
BadEntriesNonIter = _mk_bad('BadEntriesNonIter', lambda o: (tuple(o.kids), None, 5))
BadNonTuple = _mk_bad('BadNonTuple', lambda o: 42)
# malformed AND falsy entries: a truthiness test (`entries or range(n)`) would take them for "no entries given"
BadEntriesEmptyTuple = _mk_bad('BadEntriesEmptyTuple', lambda o: (tuple(o.kids) or (Leaf('pad'),), None, ()))
BadEntriesEmptyStr = _mk_bad('BadEntriesEmptyStr', lambda o: (tuple(o.kids) or (Leaf('pad'),), None, ''))
BadEntriesZero = _mk_bad('BadEntriesZero', lambda o: (tuple(o.kids), None, 0))
BadEntriesFalse = _mk_bad('BadEntriesFalse', lambda o: (tuple(o.kids), None, False))
BadRaises = _mk_bad('BadRaises', lambda o: (_ for _ in ()).throw(KeyError('boom')))
BAD_CLASSES = (Bad1Tuple, Bad4Tuple, BadChildrenNonIter, BadEntriesShort, BadEntriesLong, BadEntriesNonIter, BadNonTuple, BadRaises,
               BadEntriesEmptyTuple, BadEntriesEmptyStr, BadEntriesZero, BadEntriesFalse)
