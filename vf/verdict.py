"""Three-valued verdicts, violation sink with known-finding classification, evidence writer."""
from __future__ import annotations

import collections
import json
import os
import sys
import time
import faulthandler
import traceback

VERIF = os.path.dirname(os.path.dirname(os.path.abspath(__file__)))
EVIDENCE_DIR = os.environ.get('VERIF_EVIDENCE_DIR') or os.path.join(VERIF, 'evidence')
REPLAY_DIR = os.environ.get('VERIF_REPLAY_DIR') or os.path.join(VERIF, 'replays')
KNOWN_FILE = os.path.join(VERIF, 'known_findings.json')


def load_known(prop):
    try:
        with open(KNOWN_FILE) as f:
            data = json.load(f)
    except FileNotFoundError:
        return {}
    out = {}
    for e in data.get('findings', []):
        if e.get('property') == prop and e.get('status') == 'known':
            out[e['key']] = e
    return out


def short(x, n=300):
    try:
        s = repr(x)
    except Exception as ex:  # noqa: BLE001
        s = f'<repr failed: {type(ex).__name__}>'
    return s if len(s) <= n else s[: n - 3] + '...'


def jsonable(x, depth=0):
    if isinstance(x, (str, int, float, bool)) or x is None:
        if isinstance(x, str) and len(x) > 4000:
            return x[:4000] + '...'
        return x
    if depth > 6:
        return short(x)
    if isinstance(x, dict):
        return {(k if isinstance(k, str) else short(k, 80)): jsonable(v, depth + 1) for k, v in list(x.items())[:60]}
    if isinstance(x, (list, tuple)):
        return [jsonable(v, depth + 1) for v in list(x)[:60]]
    return short(x, 600)


# per-case wall-clock watchdog of shard workers (seconds; 0 = off). A firing is never a verdict: the parent reports 'inconclusive'.
CASE_WATCHDOG_S = int(os.environ.get('VERIF_CASE_WATCHDOG', '0'))
_CASE_FD = os.open(os.environ['VERIF_CASE_FILE'], os.O_WRONLY | os.O_CREAT) if (CASE_WATCHDOG_S and os.environ.get('VERIF_CASE_FILE')) else None


class Sink:
    """Collects violations; does not stop at the first one."""

    def __init__(self, prop, tier, seed, level):
        self.prop = prop
        self.tier = tier
        self.seed = seed
        self.level = level
        self.t0 = time.time()
        self.violations = []  # dict(key, clause, case, detail)
        self.counters = collections.Counter()
        self.cells = collections.Counter()
        self.samples = []
        self.fingerprints = set()
        self.nontrivial = set()
        self.evaluations = 0
        self.required = {}  # counter name -> minimum (inconclusive when below)
        self.notes = []
        self.extra = {}
        self.max_samples = 6

    # ---- recording
    def count(self, name, n=1):
        self.counters[name] += n

    def cell(self, *key):
        self.cells['/'.join(str(k) for k in key)] += 1

    def require(self, name, minimum=1):
        self.required[name] = minimum

    def case(self, fingerprint, nontrivial, sample=None):
        """Register one evaluated case."""
        self.evaluations += 1
        if fingerprint not in self.fingerprints:
            self.fingerprints.add(fingerprint)
            if nontrivial:
                self.nontrivial.add(fingerprint)
                if sample is not None and len(self.samples) < self.max_samples:
                    self.samples.append(jsonable(sample))

    def violation(self, key, clause, case, detail):
        """key: mechanism key used to match known findings (never random values)."""
        self.violations.append(dict(key=key, clause=clause, case=jsonable(case), detail=jsonable(detail)))
        self.count('violations_raw')

    def check(self, cond, key, clause, case, detail=None):
        self.count(f'oracle:{clause}')
        if not cond:
            self.violation(key, clause, case, detail() if callable(detail) else detail)
        return cond

    def guard(self, key, clause, case, fn):
        """Run an oracle body; an unexpected exception inside the *oracle* is itself reported."""
        if CASE_WATCHDOG_S:
            # a C-level watchdog thread (needs no GIL): a case that does not finish - e.g. an endless loop inside the extension - ends
            # the worker with the python stack on stderr instead of hanging the whole check; the parent reports it as inconclusive
            if _CASE_FD is not None:
                os.pwrite(_CASE_FD, f'CASE {key} {str(case)[:380]}'.encode('utf-8', 'replace')[:400].ljust(400), 0)
            faulthandler.dump_traceback_later(CASE_WATCHDOG_S, exit=True)
        try:
            return fn()
        except Exception:  # noqa: BLE001
            self.violation(key + '/oracle-exception', clause, case, traceback.format_exc()[-1500:])
            return None
        finally:
            if CASE_WATCHDOG_S:
                faulthandler.cancel_dump_traceback_later()

    # ---- finishing
    def finish(self, rule, assumptions=(), exhaustive=False, extra_cov=None):  # noqa: C901
        known = load_known(self.prop)
        os.makedirs(EVIDENCE_DIR, exist_ok=True)
        fresh = []
        known_hits = collections.OrderedDict()
        for v in self.violations:
            if v['key'] in known:
                known_hits.setdefault(v['key'], []).append(v)
            else:
                fresh.append(v)
        inconclusive = [
            f'{name}={self.counters.get(name, 0)}<{minimum}'
            for name, minimum in self.required.items()
            if self.counters.get(name, 0) < minimum
        ]
        if self.evaluations == 0:
            inconclusive.append('evaluations=0')
        wall = time.time() - self.t0
        coverage = dict(
            evaluations=int(self.evaluations),
            distinct_nontrivial=len(self.nontrivial),
            distinct_cases=len(self.fingerprints),
            rule=rule,
            samples=self.samples[: self.max_samples] or ['(none)'],
            exhaustive=bool(exhaustive),
            oracle_evaluations={k: v for k, v in sorted(self.counters.items())},
            cells={k: v for k, v in sorted(self.cells.items())},
            known_findings_observed={k: len(v) for k, v in known_hits.items()},
            fresh_violations=len(fresh),
            inconclusive=inconclusive,
        )
        coverage.update(self.extra)
        if extra_cov:
            coverage.update(extra_cov)
        ev = dict(
            property_id=self.prop,
            tier=self.tier,
            seed=int(self.seed),
            level=self.level,
            coverage=coverage,
            assumptions=list(assumptions) + self.notes,
            wall_s=round(wall, 3),
            violations=len(fresh),
        )
        path = os.path.join(EVIDENCE_DIR, f'{self.prop}.json')
        tmp = path + '.tmp'
        with open(tmp, 'w') as f:
            json.dump(ev, f, indent=1, default=str)
        os.replace(tmp, path)

        for key, vs in known_hits.items():
            print(f'KNOWN-FINDING: property={self.prop} {key}: {known[key].get("summary", "")} (observed {len(vs)}x)')
        if fresh:
            os.makedirs(REPLAY_DIR, exist_ok=True)
            bykey = collections.OrderedDict()
            for v in fresh:
                bykey.setdefault(v['key'], []).append(v)
            for i, (key, vs) in enumerate(bykey.items()):
                rp = os.path.join(REPLAY_DIR, f'{self.prop}-{self.tier}-{self.seed}-{i}.json')
                with open(rp, 'w') as f:
                    json.dump(dict(property=self.prop, key=key, count=len(vs), first=vs[0], more=vs[1:4]), f, indent=1, default=str)
                print(f'VIOLATION property={self.prop} replay={rp}')
                print(f'  key={key} clause={vs[0]["clause"]} count={len(vs)}')
                if i < 4:
                    print(f'  case={short(vs[0]["case"], 400)}')
                    print(f'  detail={short(vs[0]["detail"], 500)}')
            return 1
        if inconclusive:
            print(f'INCONCLUSIVE property={self.prop}: monitors not reached: {", ".join(inconclusive)}')
            return 2
        print(
            f'HELD property={self.prop} tier={self.tier} seed={self.seed}: {self.evaluations} evaluations, '
            f'{len(self.nontrivial)} distinct non-trivial, {sum(v for k, v in self.counters.items() if k.startswith("oracle:"))} '
            f'oracle evaluations, {wall:.1f}s'
        )
        return 0
