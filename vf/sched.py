"""Cooperative scheduler: runs 2-3 operations in threads but lets exactly one run at a time.

Every harness callback (universe.tick) is a yield point where the running thread parks on its
own semaphore (releasing the GIL) and the controller picks who runs next.  Schedules are
enumerated by stateless DFS with replay: a schedule is the list of choices made at the decision
points where more than one thread was enabled.
"""
from __future__ import annotations

import queue
import threading

from vf import universe as U


BLOCK_S = 0.25  # a released thread that neither yields nor finishes within this time is treated as blocked on a lock held by a parked thread


class Schedule:
    """One run.  The controller releases one parked thread at a time and waits for it to report (park at the next yield point, or
    finish).  A thread that does not report within BLOCK_S is *blocked* - typically on a real lock (e.g. the Python-level registry
    lock) whose holder is parked at a yield point; the controller then lets another parked thread run, exactly as the operating
    system would, and the blocked thread reports whenever it gets through.  If nothing is parked and nothing reports, the run is
    stuck for real and the journal watchdog of the parent process decides."""

    def __init__(self, ops, choices, max_yields=6, step_timeout=None):
        self.ops = ops
        self.n = len(ops)
        self.choices = list(choices)
        self.max_yields = max_yields
        self.go = [threading.Semaphore(0) for _ in ops]
        self.reports = queue.Queue()
        self.done = [False] * self.n
        self.results = [None] * self.n
        self.yields = [0] * self.n
        self.trace = []  # (thread, label) in execution order
        self.enabled_log = []  # number of enabled threads at each decision point
        self.taken = []
        self.tls = threading.local()
        self.sites = {}
        self.blocked_events = 0

    def _park(self, i, label):
        self.trace.append((i, label))
        self.reports.put(i)
        self.go[i].acquire()

    def hook(self, site, obj):
        i = getattr(self.tls, 'idx', None)
        if i is None:
            return
        if self.yields[i] >= self.max_yields:
            return
        self.yields[i] += 1
        self.sites[site] = self.sites.get(site, 0) + 1
        self._park(i, site)

    def _body(self, i):
        self.tls.idx = i
        self._park(i, 'start')
        try:
            res = ('ok', self.ops[i]())
        except BaseException as e:  # noqa: BLE001
            res = ('exc', type(e).__name__, str(e)[:200])
        self.results[i] = res
        self.done[i] = True
        self.tls.idx = None
        self.reports.put(i)

    def run(self):
        threads = [threading.Thread(target=self._body, args=(i,), daemon=True) for i in range(self.n)]
        old = U.HOOK[0]
        U.HOOK[0] = self.hook
        try:
            for t in threads:
                t.start()
            for _ in threads:
                self.reports.get()
            step = 0
            inflight, blocked = set(), set()
            while not all(self.done):
                parked = [i for i in range(self.n) if not self.done[i] and i not in inflight]
                if parked and not (inflight - blocked):
                    if len(parked) > 1:
                        c = self.choices[step] if step < len(self.choices) else 0
                        if c >= len(parked):
                            c = len(parked) - 1
                        self.enabled_log.append(len(parked))
                        self.taken.append(c)
                        step += 1
                        i = parked[c]
                    else:
                        i = parked[0]
                    inflight.add(i)
                    self.go[i].release()
                    parked = [p for p in parked if p != i]
                try:
                    # wait for somebody to report; give up on the running thread only when another one could run instead
                    j = self.reports.get(timeout=BLOCK_S if (parked and (inflight - blocked)) else None)
                except queue.Empty:
                    for b in inflight - blocked:
                        self.trace.append((b, 'blocked'))
                        self.blocked_events += 1
                    blocked |= inflight
                    continue
                inflight.discard(j)
                blocked.discard(j)
            for t in threads:
                t.join()
        finally:
            U.HOOK[0] = old
        return self.results


def next_choices(taken, enabled_log):
    """DFS successor of a completed run (taken[i] in range(enabled_log[i])); None when exhausted."""
    i = len(taken) - 1
    while i >= 0:
        if taken[i] + 1 < enabled_log[i]:
            return taken[:i] + [taken[i] + 1]
        i -= 1
    return None


def explore(make_ops, max_yields, max_schedules, on_result, start_from=None):
    """Enumerate schedules of the operations produced by make_ops() (fresh state per schedule).

    on_result(schedule_obj, ctx) is called after each run. Returns (#schedules, exhausted?).
    """
    choices = list(start_from or [])
    count = 0
    while True:
        ops, ctx = make_ops()
        s = Schedule(ops, choices, max_yields)
        s.run()
        count += 1
        on_result(s, ctx)
        nxt = next_choices(s.taken, s.enabled_log)
        if nxt is None:
            return count, True
        if count >= max_schedules:
            return count, False
        choices = nxt
