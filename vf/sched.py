"""Cooperative scheduler: runs 2-3 operations in threads but lets exactly one run at a time.

Every harness callback (universe.tick) is a yield point where the running thread parks on its
own semaphore (releasing the GIL) and the controller picks who runs next.  Schedules are
enumerated by stateless DFS with replay: a schedule is the list of choices made at the decision
points where more than one thread was enabled.
"""
from __future__ import annotations

import threading

from vf import universe as U


class Schedule:
    def __init__(self, ops, choices, max_yields=6, step_timeout=None):
        self.ops = ops
        self.n = len(ops)
        self.choices = list(choices)
        self.max_yields = max_yields
        self.go = [threading.Semaphore(0) for _ in ops]
        self.ctrl = threading.Semaphore(0)
        self.done = [False] * self.n
        self.results = [None] * self.n
        self.yields = [0] * self.n
        self.trace = []  # (thread, label) in execution order
        self.enabled_log = []  # number of enabled threads at each decision point
        self.taken = []
        self.tls = threading.local()
        self.sites = {}

    def _park(self, i, label):
        self.trace.append((i, label))
        self.ctrl.release()
        self.go[i].acquire()

    def hook(self, site, obj):
        i = getattr(self.tls, 'idx', None)
        if i is None:
            return
        if self.yields[i] >= self.max_yields:
            return
        self.yields[i] += 1
        self.sites[site] = self.sites.get(site, 0) + 1
        self._park(i, site)

    def _body(self, i):
        self.tls.idx = i
        self._park(i, 'start')
        try:
            res = ('ok', self.ops[i]())
        except BaseException as e:  # noqa: BLE001
            res = ('exc', type(e).__name__, str(e)[:200])
        self.results[i] = res
        self.done[i] = True
        self.tls.idx = None
        self.ctrl.release()

    def run(self):
        threads = [threading.Thread(target=self._body, args=(i,), daemon=True) for i in range(self.n)]
        old = U.HOOK[0]
        U.HOOK[0] = self.hook
        try:
            for t in threads:
                t.start()
            for _ in threads:
                self.ctrl.acquire()
            step = 0
            while not all(self.done):
                enabled = [i for i in range(self.n) if not self.done[i]]
                if len(enabled) > 1:
                    c = self.choices[step] if step < len(self.choices) else 0
                    if c >= len(enabled):
                        c = len(enabled) - 1
                    self.enabled_log.append(len(enabled))
                    self.taken.append(c)
                    step += 1
                    i = enabled[c]
                else:
                    i = enabled[0]
                self.go[i].release()
                self.ctrl.acquire()
            for t in threads:
                t.join()
        finally:
            U.HOOK[0] = old
        return self.results


def next_choices(taken, enabled_log):
    """DFS successor of a completed run (taken[i] in range(enabled_log[i])); None when exhausted."""
    i = len(taken) - 1
    while i >= 0:
        if taken[i] + 1 < enabled_log[i]:
            return taken[:i] + [taken[i] + 1]
        i -= 1
    return None


def explore(make_ops, max_yields, max_schedules, on_result, start_from=None):
    """Enumerate schedules of the operations produced by make_ops() (fresh state per schedule).

    on_result(schedule_obj, ctx) is called after each run. Returns (#schedules, exhausted?).
    """
    choices = list(start_from or [])
    count = 0
    while True:
        ops, ctx = make_ops()
        s = Schedule(ops, choices, max_yields)
        s.run()
        count += 1
        on_result(s, ctx)
        nxt = next_choices(s.taken, s.enabled_log)
        if nxt is None:
            return count, True
        if count >= max_schedules:
            return count, False
        choices = nxt
