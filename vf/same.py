"""Exact structural identity oracle.

``diff(a, b)`` returns None when ``a`` and ``b`` are the same tree in the sense of C01:
same exact container type at every node, same keys in the same order, same metadata
(namedtuple class, deque maxlen, defaultdict factory, custom metadata), and the *identical*
leaf objects at the same positions.  Otherwise a short description of the first difference.

Nodes are recognised structurally by python type (not by asking optree), so the oracle is
independent of the registry: anything that is not one of the known container types or a
harness-owned custom node (has ``_same_parts``) is compared by identity.
"""
from __future__ import annotations

import functools
from collections import OrderedDict, UserDict, defaultdict, deque

import optree

_BUILTIN = (tuple, list, dict, OrderedDict, defaultdict, deque)


def _is_nt(t):
    return (
        issubclass(t, tuple)
        and type(getattr(t, '_fields', None)) is tuple
        and callable(getattr(t, '_make', None))
        and callable(getattr(t, '_asdict', None))
    )


def _is_ss(t):
    return t.__bases__ == (tuple,) and isinstance(getattr(t, 'n_sequence_fields', None), int)


def _key_same(k1, k2):
    return k1 is k2 or (type(k1) is type(k2) and k1 == k2)


def _is_container(a):
    ta = type(a)
    if a is None:
        return True
    if ta in (tuple, list, deque, dict, OrderedDict, defaultdict) or ta is optree.functools.partial:
        return True
    if issubclass(ta, tuple) and (_is_nt(ta) or _is_ss(ta)):
        return True
    return getattr(ta, '_same_parts', None) is not None and not isinstance(a, type)


def diff(a, b, path='$', leaf_eq=None, leaf_ids=None, _skip_id=False, any_ids=None):  # noqa: C901
    if any_ids is not None and id(a) in any_ids and not _skip_id:
        return None  # a leaf position: whatever was substituted is accepted
    if leaf_ids is not None and id(a) in leaf_ids and not _skip_id:
        return None if a is b else f'{path}: leaf object {a!r} was not preserved by identity'
    if not _is_container(a):
        # leaf
        if leaf_eq is not None:
            return None if leaf_eq(a, b) else f'{path}: leaf {a!r} !~ {b!r}'
        if a is not b:
            return f'{path}: leaf {a!r} is not {b!r}'
        return None
    ta, tb = type(a), type(b)
    if ta is not tb:
        return f'{path}: type {ta.__name__} != {tb.__name__}'
    if a is None:
        return None
    if ta in (tuple, list) or (issubclass(ta, tuple) and (_is_nt(ta) or _is_ss(ta))):
        if len(a) != len(b):
            return f'{path}: len {len(a)} != {len(b)}'
        for i, (x, y) in enumerate(zip(a, b)):
            d = diff(x, y, f'{path}[{i}]', leaf_eq, leaf_ids, False, any_ids)
            if d:
                return d
        return None
    if ta is deque:
        if a.maxlen != b.maxlen:
            return f'{path}: maxlen {a.maxlen} != {b.maxlen}'
        if len(a) != len(b):
            return f'{path}: len {len(a)} != {len(b)}'
        for i, (x, y) in enumerate(zip(a, b)):
            d = diff(x, y, f'{path}[{i}]', leaf_eq, leaf_ids, False, any_ids)
            if d:
                return d
        return None
    if ta in (dict, OrderedDict, defaultdict):
        if ta is defaultdict and a.default_factory is not b.default_factory:
            return f'{path}: default_factory {a.default_factory!r} != {b.default_factory!r}'
        ka, kb = list(a), list(b)
        if len(ka) != len(kb) or not all(_key_same(x, y) for x, y in zip(ka, kb)):
            return f'{path}: key order {ka!r} != {kb!r}'
        for k, k2 in zip(ka, kb):
            d = diff(a[k], b[k2], f'{path}[{k!r}]', leaf_eq, leaf_ids, False, any_ids)
            if d:
                return d
        return None
    if ta is optree.functools.partial:
        fa, fb = a.func, b.func
        if not (fa is fb or fa == fb):
            return f'{path}: partial func {fa!r} != {fb!r}'
        # partial re-packs (args, keywords) on construction: the two containers themselves are
        # never preserved by identity (their elements are)
        d = diff(a.args, b.args, f'{path}.args', leaf_eq, leaf_ids, True, any_ids)
        if d:
            return d
        return diff(a.keywords, b.keywords, f'{path}.keywords', leaf_eq, leaf_ids, True, any_ids)
    ma, ca = a._same_parts()
    mb, cb = b._same_parts()
    if not (ma is mb or ma == mb):
        return f'{path}: custom metadata {ma!r} != {mb!r}'
    if len(ca) != len(cb):
        return f'{path}: custom arity {len(ca)} != {len(cb)}'
    for i, (x, y) in enumerate(zip(ca, cb)):
        d = diff(x, y, f'{path}<{i}>', leaf_eq, leaf_ids, False, any_ids)
        if d:
            return d
    return None


def same(a, b):
    return diff(a, b) is None


def shares_container(a, b, stop_ids=frozenset()):
    """True iff a and b share a *mutable or non-singleton* container object (not leaves).

    Used for the "identity map builds new containers" clause.  ``()`` and ``None`` are exempt.
    """
    ids_a = set()

    def walk(x, acc):
        t = type(x)
        if x is None or (t is tuple and len(x) == 0) or id(x) in stop_ids:
            return
        if t in (tuple, list, deque, dict, OrderedDict, defaultdict) or hasattr(t, '_same_parts') or (
            issubclass(t, tuple) and (_is_nt(t) or _is_ss(t))
        ):
            acc.add(id(x))
            if t in (dict, OrderedDict, defaultdict):
                for v in x.values():
                    walk(v, acc)
            elif hasattr(t, '_same_parts'):
                for v in x._same_parts()[1]:
                    walk(v, acc)
            else:
                for v in x:
                    walk(v, acc)

    ids_b = set()
    walk(a, ids_a)
    walk(b, ids_b)
    return bool(ids_a & ids_b)


def partial_children_ids(tree):
    """ids of the (args, keywords) containers of every optree partial reachable in ``tree``."""
    out = set()
    seen = set()

    def walk(x):
        if id(x) in seen:
            return
        seen.add(id(x))
        t = type(x)
        if t is optree.functools.partial:
            out.add(id(x.args))
            out.add(id(x.keywords))
            walk(x.args)
            walk(x.keywords)
        elif t in (dict, OrderedDict, defaultdict):
            for v in x.values():
                walk(v)
        elif t in (tuple, list, deque) or (issubclass(t, tuple) and (_is_nt(t) or _is_ss(t))):
            for v in x:
                walk(v)
        elif getattr(t, '_same_parts', None) is not None and not isinstance(x, type):
            for v in x._same_parts()[1]:
                walk(v)

    walk(tree)
    return out


def describe(x):  # noqa: C901
    """Process-independent canonical description of a tree whose leaves are ints/strs.

    Includes exact types, dict key order (as iterated), deque maxlen, defaultdict factory name,
    namedtuple / struct-sequence class name and custom metadata.
    """
    t = type(x)
    if x is None:
        return 'None'
    if t is tuple:
        return '(' + ','.join(describe(c) for c in x) + ',)'
    if t is list:
        return '[' + ','.join(describe(c) for c in x) + ']'
    if t is deque:
        return f'deque<{x.maxlen}>[' + ','.join(describe(c) for c in x) + ']'
    if t in (dict, OrderedDict, defaultdict):
        head = {dict: 'dict', OrderedDict: 'odict', defaultdict: 'ddict'}[t]
        if t is defaultdict:
            head += f'<{getattr(x.default_factory, "__qualname__", x.default_factory)}>'
        return head + '{' + ','.join(f'{k!r}:{describe(v)}' for k, v in x.items()) + '}'
    if issubclass(t, tuple) and (_is_nt(t) or _is_ss(t)):
        return f'{t.__module__}.{t.__qualname__}(' + ','.join(describe(c) for c in x) + ')'
    if t is optree.functools.partial:
        return f'partial<{getattr(x.func, "__qualname__", type(x.func).__name__)}>(' + describe(x.args) + ';' + describe(x.keywords) + ')'
    if getattr(t, '_same_parts', None) is not None:
        m, ch = x._same_parts()
        return f'{t.__name__}<{m!r}>(' + ','.join(describe(c) for c in ch) + ')'
    return repr(x)


def subobjects(tree, limit=400):
    """All objects reachable through python containers / harness custom nodes (nodes and leaves)."""
    out = []
    seen = set()

    def walk(x):
        if len(out) >= limit:
            return
        out.append(x)
        if id(x) in seen:
            return
        seen.add(id(x))
        t = type(x)
        if t in (dict, OrderedDict, defaultdict):
            for v in x.values():
                walk(v)
        elif t in (tuple, list, deque) or (issubclass(t, tuple) and (_is_nt(t) or _is_ss(t))):
            for v in x:
                walk(v)
        elif t is optree.functools.partial:
            walk(x.args)
            walk(x.keywords)
        elif getattr(t, '_same_parts', None) is not None and not isinstance(x, type):
            for v in x._same_parts()[1]:
                walk(v)

    walk(tree)
    return out
