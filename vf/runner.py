"""Journaled subprocess case runner (crash attribution, resume-after-crash).

A property module used with this runner defines
    journal_cases(shard) -> list of json-able case descriptors (deterministic)
    journal_run(sink, case, sub_start, progress) -> None
        progress(sub) must be called before each sub-step (e.g. each injection index) so that a
        death is attributed to (case, sub) and the run resumes at sub + 1.

Worker:  python -m vf.runner <module> <shard-json> <journal> <start_case> <start_sub>
Journal lines:  B <i> | K <i> <sub> | E <i> <json dump of the per-case sink>
"""
from __future__ import annotations

import importlib
import json
import os
import signal
import subprocess
import sys
import tempfile
import time

from vf import verdict


def _worker(argv):
    modname, shard_json, journal, start_case, start_sub = argv
    from vf import run as vrun

    mod = importlib.import_module(modname)
    shard = json.loads(shard_json)
    cases = mod.journal_cases(shard)
    start_case, start_sub = int(start_case), int(start_sub)
    fd = os.open(journal, os.O_WRONLY | os.O_APPEND | os.O_CREAT)

    def w(line):
        os.write(fd, (line + '\n').encode())

    for i, case in enumerate(cases):
        if i < start_case:
            continue
        sub0 = start_sub if i == start_case else 0
        w(f'B {i}')
        sink = verdict.Sink('x', 'x', 0, 'x')
        mod.journal_run(sink, case, sub0, lambda sub, i=i: w(f'K {i} {sub}'))
        w(f'E {i} ' + json.dumps(vrun._dump(sink), default=str))
    w('DONE')
    os.close(fd)


def _cpu_seconds(pid):
    """user + system CPU time of a process (all threads), in seconds; 0.0 when it cannot be read."""
    try:
        with open(f'/proc/{pid}/stat') as f:
            parts = f.read().rsplit(')', 1)[1].split()
        return (int(parts[11]) + int(parts[12])) / os.sysconf('SC_CLK_TCK')
    except Exception:  # noqa: BLE001
        return 0.0


def run_journaled(sink, modname, shard, env=None, per_worker_timeout=900, max_restarts=400, describe=None, log_dir=None, stall_s=None, resume='sub'):
    """Run all cases of (modname, shard) in worker subprocesses; merge per-case sinks into ``sink``.

    Returns list of death records: dict(case=<descriptor>, index=i, sub=k, rc=..., stderr_tail=...).
    """
    from vf import run as vrun

    mod = importlib.import_module(modname)
    cases = mod.journal_cases(shard)
    work = tempfile.mkdtemp(prefix='jr-', dir=os.path.join(verdict.VERIF, '.work'))
    journal = os.path.join(work, 'journal')
    deaths = []
    start_case, start_sub = 0, 0
    restarts = 0
    merged = set()
    offset = 0
    try:
        while True:
            cmd = [sys.executable, '-m', 'vf.runner', modname, json.dumps(shard), journal, str(start_case), str(start_sub)]
            t0 = time.time()
            gdb_out = None
            if stall_s is None:
                try:
                    p = subprocess.run(cmd, env=env, capture_output=True, text=True, timeout=per_worker_timeout)
                    rc, err = p.returncode, (p.stderr or '')[-3000:]
                except subprocess.TimeoutExpired as e:
                    rc, err = 'timeout', (e.stderr.decode('utf-8', 'replace') if isinstance(e.stderr, bytes) else (e.stderr or ''))[-3000:]
            else:
                # stall watchdog: the journal must keep growing; on a stall take C-level stacks with gdb
                errf = open(journal + '.stderr', 'wb')
                p = subprocess.Popen(cmd, env=env, stdout=subprocess.DEVNULL, stderr=errf)
                last_size, last_change = -1, time.time()
                cpu_at_change = 0.0
                stall_cpu = None
                rc = None
                while True:
                    try:
                        rc = p.wait(timeout=0.5)
                        break
                    except subprocess.TimeoutExpired:
                        pass
                    size = os.path.getsize(journal) if os.path.exists(journal) else 0
                    now = time.time()
                    if size != last_size:
                        last_size, last_change = size, now
                        cpu_at_change = _cpu_seconds(p.pid)
                    elif now - last_change > stall_s and gdb_out is None:
                        # CPU seconds burnt since the journal last grew: a worker that spins (an endless loop in the engine) has consumed
                        # about the whole window, a worker that is starved or blocked has not - a load-independent reading of the stall
                        stall_cpu = (round(_cpu_seconds(p.pid) - cpu_at_change, 1), round(now - last_change, 1))
                        try:
                            g = subprocess.run(['gdb', '-p', str(p.pid), '-batch', '-ex', 'thread apply all bt 14'], capture_output=True, text=True, timeout=60)
                            gdb_out = g.stdout[-12000:]
                        except Exception as e:  # noqa: BLE001
                            gdb_out = f'gdb failed: {e!r}'
                        p.kill()
                        rc = p.wait()
                        rc = 'stalled'
                        break
                    if now - t0 > per_worker_timeout:
                        p.kill()
                        p.wait()
                        rc = 'timeout'
                        break
                errf.close()
                with open(journal + '.stderr', 'rb') as ef:
                    err = ef.read().decode('utf-8', 'replace')[-4000:]
            # read new journal lines
            done = False
            open_case, last_sub = None, None
            if os.path.exists(journal):
                with open(journal, 'rb') as f:
                    f.seek(offset)
                    data = f.read()
                    offset += len(data)
                for line in data.decode('utf-8', 'replace').splitlines():
                    if line.startswith('B '):
                        open_case, last_sub = int(line[2:]), None
                    elif line.startswith('K '):
                        _, ci, sub = line.split()
                        open_case, last_sub = int(ci), int(sub)
                    elif line.startswith('E '):
                        _, ci, payload = line.split(' ', 2)
                        if int(ci) not in merged:
                            try:
                                vrun._merge(sink, json.loads(payload))
                                merged.add(int(ci))
                            except Exception:  # noqa: BLE001
                                pass
                        if open_case == int(ci):
                            open_case, last_sub = None, None
                    elif line == 'DONE':
                        done = True
            if done and rc == 0:
                break
            # the worker died (signal / sanitizer abort / timeout) inside open_case
            if open_case is None:
                # died outside any case (import error?): cannot attribute
                deaths.append(dict(case=None, index=None, sub=None, rc=rc, stderr_tail=err))
                break
            sig = None
            if isinstance(rc, int) and rc < 0:
                try:
                    sig = signal.Signals(-rc).name
                except ValueError:
                    sig = str(rc)
            deaths.append(dict(case=cases[open_case], index=open_case, sub=last_sub, rc=rc, signal=sig, stderr_tail=err, wall=round(time.time() - t0, 1), gdb=gdb_out, stall_cpu=stall_cpu if stall_s is not None else None))
            restarts += 1
            if restarts > max_restarts:
                sink.notes.append(f'journaled runner gave up after {restarts} worker deaths')
                break
            if resume == 'case' or last_sub is None or (open_case, last_sub) <= (start_case, start_sub - 1):
                # no sub-step progress since the last restart: this case cannot be resumed, skip it
                start_case, start_sub = open_case + 1, 0
            else:
                start_case, start_sub = open_case, last_sub + 1
    finally:
        import shutil

        if log_dir:
            os.makedirs(log_dir, exist_ok=True)
        shutil.rmtree(work, ignore_errors=True)
    return deaths


if __name__ == '__main__':
    if os.environ.get('VERIF_VARIANT') in ('asan', 'tsan'):
        # sanitizer-instrumented frames are several times larger than production frames: give the
        # worker a stack that keeps the *engine's own* depth limit the deciding factor.
        import threading

        threading.stack_size(1 << 30)
        box = []

        def _main():
            try:
                _worker(sys.argv[1:])
            except BaseException as e:  # noqa: BLE001
                box.append(e)

        t = threading.Thread(target=_main)
        t.start()
        t.join()
        if box:
            raise box[0]
    else:
        _worker(sys.argv[1:])
