#!/usr/bin/python3
"""MANIFEST.setup_cmd: offline setup - third-party monitor deps into .deps/, all engine variants built."""
import os
import subprocess
import sys

VERIF = os.path.dirname(os.path.dirname(os.path.abspath(__file__)))
sys.path.insert(0, VERIF)
from vf import build  # noqa: E402

deps = os.path.join(VERIF, '.deps')
if not os.path.isdir(os.path.join(deps, 'icontract')):
    subprocess.run(['/venv/bin/pip', 'install', '-q', '--no-index', '--find-links', '/opt/veriftools/wheels', '--target', deps, 'icontract', 'deal'], check=False)
os.makedirs(os.path.join(VERIF, '.work'), exist_ok=True)
from concurrent.futures import ThreadPoolExecutor  # noqa: E402

with ThreadPoolExecutor(3) as ex:
    for out in ex.map(lambda v: build.build(v, quiet=False), ['plain', 'asan', 'tsan']):
        print(out)
