#!/bin/bash
# usage: tools/confirm_seeded.sh <id> [--no-suite]
# Confirms a sub-agent's seeded change in a scratch worktree outside /repo and /verif:
#  demo passes on the unchanged tree, fails with the patch; the repository's own suite still passes with the patch.
TOOLS=$(cd "$(dirname "$0")" && pwd)
ID=$1; OUT=${SEEDED_OUT:-$TOOLS/../seeded}/$ID; WT=/tmp/cf-$ID
rm -rf $WT; git -C /repo worktree prune; git -C /repo worktree add -q --detach $WT HEAD || exit 3
$TOOLS/build_ext.sh $WT >/dev/null 2>&1 || { echo "$ID: baseline build failed"; exit 3; }
( cd $WT && timeout 600 /venv/bin/python $OUT/demo.py >/tmp/cf-$ID.base.log 2>&1 ); base=$?
( cd $WT && git apply $OUT/patch.diff ) || { echo "$ID: patch does not apply"; git -C /repo worktree remove --force $WT; exit 3; }
if git -C $WT diff --name-only | grep -qE '\.(cpp|h)$'; then $TOOLS/build_ext.sh $WT >/dev/null 2>&1 || { echo "$ID: patched build failed"; git -C /repo worktree remove --force $WT; exit 3; }; fi
( cd $WT && timeout 600 /venv/bin/python $OUT/demo.py >/tmp/cf-$ID.mut.log 2>&1 ); mut=$?
suite="skipped"
if [ "$2" != "--no-suite" ]; then
  ( cd $WT && /venv/bin/python -m pytest -q -p no:cacheprovider --timeout=900 -x tests >/tmp/cf-$ID.suite.log 2>&1 ); src=$?
  suite="rc=$src $(tail -1 /tmp/cf-$ID.suite.log)"
fi
echo "$ID: demo on unchanged rc=$base ; demo with patch rc=$mut ; suite with patch: $suite ; files: $(git -C $WT diff --name-only | tr '\n' ' ')"
git -C /repo worktree remove --force $WT
