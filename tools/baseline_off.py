#!/usr/bin/python3
"""Run the repository's own test suite with the verification guard OFF.

The suite imports /repo/optree/_C*.so (a git-ignored build artifact).  To make the run exercise the
*current* C++ sources (including fix: commits) the extension is first rebuilt in place with the
repository's release flags; nothing tracked by git is touched.
"""
import os
import subprocess
import sys

VERIF = os.path.dirname(os.path.dirname(os.path.abspath(__file__)))
sys.path.insert(0, VERIF)
from vf import build  # noqa: E402

env = dict(os.environ)
env.pop('OPTREE_VERIF', None)
so = build.build_inplace()
print('rebuilt', so, file=sys.stderr)
args = sys.argv[1:] or ['-ra', '-q', '-p', 'no:cacheprovider', '--timeout=900', '--continue-on-collection-errors']
sys.exit(subprocess.run(['/venv/bin/python', '-m', 'pytest', *args], cwd=build.repo(), env=env).returncode)
