#!/bin/bash
# usage: build_ext.sh <worktree>   -- compiles <worktree>/src into <worktree>/optree/_C.cpython-312-x86_64-linux-gnu.so (in place)
set -e
WT=$(realpath "$1")
INC=$(/venv/bin/python -c 'import sysconfig;print(sysconfig.get_paths()["include"])')
TORCH=$(/venv/bin/python -c 'import importlib.util as u,os;print(os.path.join(os.path.dirname(u.find_spec("torch").origin),"include"))')
OBJ=$(mktemp -d /tmp/objs.XXXXXX)
pids=()
for f in $WT/src/*.cpp $WT/src/treespec/*.cpp; do
  g++ -std=c++20 -fPIC -fvisibility=hidden -DNDEBUG -w -O1 -I $WT/include -isystem $INC -isystem $TORCH -c $f -o $OBJ/$(basename $f).o &
  pids+=($!)
done
for p in "${pids[@]}"; do wait $p; done
g++ -shared $OBJ/*.o -o $WT/optree/_C.cpython-312-x86_64-linux-gnu.so
rm -rf $OBJ
echo "built $WT/optree/_C.cpython-312-x86_64-linux-gnu.so"
