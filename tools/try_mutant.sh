#!/bin/bash
# usage: tools/try_mutant.sh <patch.diff> "<props>" [tier]
# Applies the patch in a scratch worktree of /repo (outside /repo and /verif), points the checks at it
# with VERIF_REPO, runs the listed checks (evidence/replays go to a scratch dir), removes the worktree.
set -u
cd "$(dirname "$0")/.."
PATCH=$(realpath "$1"); PROPS="$2"; TIER="${3:-quick}"
WT=$(mktemp -d /tmp/mut-wt.XXXXXX); rmdir $WT
git -C /repo worktree add -q --detach $WT HEAD || exit 3
( cd $WT && git apply "$PATCH" ) || { echo "patch does not apply"; git -C /repo worktree remove --force $WT; exit 3; }
SCR=$(mktemp -d /tmp/mutant-ev.XXXXXX)
for p in $PROPS; do
  out=$(VERIF_REPO=$WT VERIF_EVIDENCE_DIR=$SCR VERIF_REPLAY_DIR=$SCR/replays ./check $p --tier $TIER 2>&1); rc=$?
  echo "== $p rc=$rc"
  echo "$out" | grep -E "^(VIOLATION|HELD|INCONCLUSIVE)|^  key=" | grep -E "key=|HELD|INCONCLUSIVE" | head -5 | cut -c1-220
done
git -C /repo worktree remove --force $WT
rm -rf "$SCR"
