#!/bin/bash
# usage: tools/try_mutant.sh <patch.diff> "<props>" [tier]
# Applies the patch to /repo, runs the listed checks (evidence/replays go to a scratch dir), reverts the patch.
set -u
cd "$(dirname "$0")/.."
PATCH=$(realpath "$1"); PROPS="$2"; TIER="${3:-quick}"
if ! git -C /repo diff --quiet; then echo "/repo has uncommitted changes; refusing"; exit 3; fi
git -C /repo apply "$PATCH" || { echo "patch does not apply"; exit 3; }
SCR=$(mktemp -d /tmp/mutant-ev.XXXXXX)
for p in $PROPS; do
  out=$(VERIF_EVIDENCE_DIR=$SCR VERIF_REPLAY_DIR=$SCR/replays ./check $p --tier $TIER 2>&1); rc=$?
  echo "== $p rc=$rc"
  echo "$out" | grep -E "^(VIOLATION|KNOWN-FINDING|HELD|INCONCLUSIVE)|^  key=" | head -8 | cut -c1-260
done
git -C /repo checkout -- .
rm -rf "$SCR"
