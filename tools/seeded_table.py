#!/usr/bin/env python3
"""Print the DESIGN.md section-10 table rows for seeded/<id>/meta.json (rounds 2 and 3)."""
import json, os, sys
root = os.path.join(os.path.dirname(os.path.abspath(__file__)), '..', 'seeded')
for d in sorted(os.listdir(root)):
    m = json.load(open(os.path.join(root, d, 'meta.json')))
    if m.get('round', 1) == 1 and '--all' not in sys.argv:
        continue
    caught = '; '.join(f"{p} " + ', '.join(f'`{k}`' for k in ks[:3]) for p, ks in m['caught_by'].items())
    s = m.get('strengthened')
    print(f"| {d} | {m['summary']} (needs: {m['needs']}) | {caught} | {'**yes**: ' + s if s else 'no'} |")
