#!/bin/bash
# usage: tools/sweep.sh "<props>" "<seeds>" [tier]  -- runs checks sequentially, prints one line per run
cd "$(dirname "$0")/.."
for s in $2; do for p in $1; do
  out=$(VERIF_SEED=$s ./check $p --tier ${3:-quick} 2>&1); rc=$?
  echo "seed=$s $p rc=$rc $(echo "$out" | grep -E 'HELD|VIOLATION|INCONCLUSIVE|KNOWN' | head -3 | cut -c1-200 | tr '\n' '|')"
done; done
