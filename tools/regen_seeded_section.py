#!/usr/bin/env python3
"""Regenerate the 'Rounds 2 to N' part of DESIGN.md section 10 from seeded/*/meta.json."""
import json, os, re, subprocess
root = os.path.join(os.path.dirname(os.path.abspath(__file__)), '..')
metas = {d: json.load(open(os.path.join(root, 'seeded', d, 'meta.json'))) for d in sorted(os.listdir(os.path.join(root, 'seeded')))}
later = {d: m for d, m in metas.items() if m.get('round', 1) >= 2}
rounds = sorted({m['round'] for m in later.values()})
missed = [d for d, m in later.items() if m.get('strengthened')]
rows = subprocess.run(['python3', os.path.join(root, 'tools', 'seeded_table.py')], capture_output=True, text=True).stdout
text = f"""### Rounds 2 to {rounds[-1]} ({len(later)} more changes)

Round 2 (`seeded/<id>-b`, one per property) gave each fresh sub-agent the property text and a one-line summary of the round-1
change to avoid. Later rounds (`-c`, `-d`, `-e`, `-f`, `-g`: ten properties each, alternating between the two halves of the property
list) additionally named clauses of the property that the earlier changes had not touched, and listed all earlier changes as taken. Same isolation (scratch worktree under `/tmp`, nothing from
`/verif`), same confirmation (`tools/confirm_seeded.sh`: demo passes unchanged / fails patched / the 94 003-id suite passes
patched; the result line is in each `meta.json`), same bookkeeping. All {len(metas)} kept changes are detected by the quick tier
of their property (`tools/selfcheck.sh`, seed 0). {len(missed)} of these {len(later)}
({', '.join(missed)}) were missed when they arrived - or, in a few cases the column says so, caught only weakly (by a clause that the audit of the
same session had added hours before, by a single case, or only as a harness exception) - and led to the strengthening named in the last column - the last column is therefore also the list of
blind spots the machinery had.

| id | change (needs ...) | caught by (first clauses) | check strengthened? |
|---|---|---|---|
{rows}"""
s = open(os.path.join(root, 'DESIGN.md')).read()
a = s.index('### Rounds 2 ')
b = s.index('Lessons of rounds 2 and 3', a)
s = s[:a] + text + '\n' + s[b:]
open(os.path.join(root, 'DESIGN.md'), 'w').write(s)
print('rounds', rounds, 'later', len(later), 'missed', len(missed))
