#!/bin/bash
# Re-validate the monitors against every kept seeded change: each must make its property's quick check exit 1.
# usage: tools/selfcheck.sh [ids...]
cd "$(dirname "$0")/.."
IDS="${@:-$(ls seeded)}"
fail=0
for id in $IDS; do
  prop=$(python3 -c "import json;print(json.load(open('seeded/$id/meta.json'))['property'])")
  out=$(tools/try_mutant.sh seeded/$id/patch.diff "$prop" 2>&1)
  if echo "$out" | grep -q "== $prop rc=1"; then echo "DETECTED $id by $prop: $(echo "$out" | grep 'key=' | head -2 | cut -c1-120 | tr '\n' ';')"; else echo "MISSED   $id by $prop: $(echo "$out" | tail -2 | tr '\n' ' ' | cut -c1-200)"; fail=1; fi
done
exit $fail
