#!/usr/bin/env python3
"""Print a markdown table of what the last run of every check observed (from evidence/<id>.json)."""
import json, os, sys
root = os.path.join(os.path.dirname(os.path.abspath(__file__)), '..', 'evidence')
print('| id | tier | seed | evaluations | distinct non-trivial | oracle evaluations | option / coverage cells hit | wall s |')
print('|---|---|---|---|---|---|---|---|')
for f in sorted(os.listdir(root)):
    e = json.load(open(os.path.join(root, f)))
    c = e['coverage']
    oe = c.get('oracle_evaluations', {})
    n_or = sum(v for k, v in oe.items() if k.startswith('oracle:'))
    print(f"| {e['property_id']} | {e['tier']} | {e['seed']} | {c['evaluations']} | {c['distinct_nontrivial']} | {n_or} | {len(c.get('cells', {}))} | {e.get('wall_s', 0):.0f} |")
