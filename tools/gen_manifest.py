#!/usr/bin/python3
"""Regenerate MANIFEST.json from the table below (keeps it schema-valid at all times)."""
import json
import os

VERIF = os.path.dirname(os.path.dirname(os.path.abspath(__file__)))

# id -> (level category, technique, level text, level note, design ref)
CHECKS = {}


def add(pid, cat, technique, text, note, ref):
    CHECKS[pid] = (cat, technique, text, note, ref)


add('C01', 'exploration', 'runtime monitoring: generated trees with container histories x option grid, exact structural-identity oracle on the real flatten/unflatten',
    'Held-on-K-executions: every generated (tree, options) case is round-tripped through the rebuilt engine and judged by an independent structural identity oracle; reach is the generator bounds, not a proof.',
    'trusts vf.same / vf.refmodel (harness), CPython, g++; depth<=6, fan-out<=80', 'DESIGN.md#c01')
add('C02', 'exploration', 'runtime monitoring: differential oracle (executable reference of the README rules) over generated trees, key mixes and all insertion permutations of small dicts',
    'Differential runtime check against an independent reference model on every generated case; permutations of small dicts enumerated completely; not a proof.',
    'the reference model is a second reading of the documentation; shared misreadings are invisible (mitigated by C03/C18)', 'DESIGN.md#c02')

add('C03', 'exploration', 'runtime monitoring: all-pairs agreement oracle over the eight traversal entry points on generated trees, python folds as oracle for reductions, error-parity on single-fault malformed nodes',
    'Every generated case is pushed through all traversal entry points of the rebuilt engine and compared pairwise; reductions compared with python folds; held on the executions listed in evidence.',
    'no external reference: agreement among entry points; single-fault inputs only for error parity', 'DESIGN.md#c03')
add('C04', 'exploration', 'runtime monitoring: per-leaf accessor/path oracle (accessor(tree) is leaf, entry typing vs reference, prefix-freeness, ==/hash, slice/concat, eval(codify)) on generated trees',
    'Each leaf of each generated case is addressed through its accessor on the real objects; typing is compared with the reference model; held on the executions listed.',
    'expected entry typing from vf.refmodel; FlattenedEntry / non-literal keys excluded from eval(codify) only', 'DESIGN.md#c04')
add('C05', 'exploration', 'runtime monitoring: transparent call recorder as f over tree_map family / traverse / walk with generated suffix and non-suffix rests; event-log oracle (count, order, argument identity, post-order)',
    'The real tree_map family is driven with a recording function; the recorded event log is checked against the reference extraction of rest subtrees and post-order; held on the executions listed.',
    'rests are well-formed trees; predicates are structural', 'DESIGN.md#c05')
add('C06', 'exploration', 'runtime monitoring: pair generation (one-attribute edits, neutral edits, option pairs) with reference-predicted ==, hash contract asserted whenever the implementation answers ==, 11 construction routes',
    'Pairs of treespecs are produced by the real engine through many routes and option pairs; equality is compared with a reference prediction and the hash contract is checked on every equal pair observed.',
    'expected equality derived from vf.refmodel.equal_shapes; NaN keys excluded from the pickle route', 'DESIGN.md#c06')
add('C07', 'exploration', 'runtime monitoring: four-way agreement oracle (reference is_prefix, flatten_up_to, is_prefix, prefix_errors) on generated (prefix, full) pairs incl. nested reordered dicts; algebraic laws on chains',
    'Each generated pair is judged by the three implementations in the rebuilt engine/Python layer and by the reference; any disagreement, wrong exception type or wrong subtree is a violation.',
    'structural predicates only; partition clause as multiset when key orders differ', 'DESIGN.md#c07')
add('C08', 'exploration', 'runtime monitoring: algebraic consistency oracle over inspection methods, index probes in [-n-2,n+1], constructors, transform, compose and repr at every node of generated treespecs',
    'Every node of every generated treespec is inspected through the public API and rebuilt through each constructor; compose is compared with the reference composition and with an actual composed tree.',
    'reference shape/renderer from vf.refmodel', 'DESIGN.md#c08')
add('C09', 'exploration', 'runtime monitoring: reference least-upper-bound oracle + per-path leaf replication oracle on generated pairs/triples; recorded calls for tree_broadcast_map*',
    'Pairs and triples are broadcast by the real code; result structure is compared with a reference LUB (incl. custom path entries) and every result leaf is traced to its unique source leaf.',
    'reference LUB keeps the first operand node data; comparison per leaf path', 'DESIGN.md#c09')
add('C10', 'exploration', 'runtime monitoring: index-law / involution / shape oracle on generated (outer, inner) pairs with unique leaves; recorded-call comparison for tree_transpose_map*',
    'Outer-of-inner trees with unique leaf objects are transposed by the real code; the index law is checked leaf by leaf, rejections are enumerated per case.',
    'f memoised per leaf to compare two runs by identity', 'DESIGN.md#c10')
add('C11', 'exploration', 'runtime monitoring: observation-vector oracle across pickle protocols / copy, and across fresh interpreters with 4 registry histories (child processes regenerate the case and compare with a fresh flatten)',
    'Pickled bytes produced by the real engine are loaded in the same process and in fresh interpreters whose registry history is manipulated; observation vectors and ==/hash are compared, missing registrations must raise.',
    'seeded regeneration in the child; NaN keys and python-unpicklable struct-sequence classes excluded', 'DESIGN.md#c11')
add('C12', 'fault_enumeration', 'runtime monitoring: exhaustive bounded history enumeration (register/unregister/dataclass x types x namespaces x argument faults x warnings-as-errors) against a dict model, engine and Python views observed after every step',
    'Every history up to the bound is executed on the real registry (fresh classes per history) and after each step, successful or failing, ~170 observations are compared with a dict model; exhaustive for the stated bound only.',
    'model = dict[(namespace,type)]; active registration observed behaviourally through logging flatten functions', 'DESIGN.md#c12')
add('C13', 'exploration', 'runtime monitoring: exhaustive enumeration of well-nested with-block programs to a bound, real execution, exact mode-set readback and behavioural observation in every namespace at every enter/exit event',
    'All well-nested programs to the bound are really executed; at each event the exact engine mode set and the flatten behaviour in every namespace are compared with a set model (snapshot-at-enter == state-at-exit).',
    'single-threaded; exact state via _C.is_dict_insertion_ordered(ns, inherit_global_namespace=False)', 'DESIGN.md#c13')
add('C14', 'exploration', 'runtime monitoring: observation-vector invariance under all orders of mutation/registry/GC actions, before/after structural snapshots around ~40 API calls, weakref probes for leaf retention and GC of payload cycles',
    'The treespec observation vector is re-read after every step of permuted hostile actions; every API call is bracketed by deep snapshots of all its inputs; weakrefs decide retention and cycle collection.',
    '__getstate__ not gated; snapshots record identities, key order and metadata', 'DESIGN.md#c14')

add('C15', 'fault_enumeration', 'runtime monitoring: tick()-based fault injector enumerating every k-th callback invocation of ~45 operations x scenario trees in journaled worker processes; exception-identity, refcount-ledger and re-run oracles',
    'Every callback invocation index of every (operation, scenario) pair is injected once on the real engine; crash attribution by journal; exhaustive for the listed operations x scenarios only.',
    'single fault per run; GC disabled during an injection, collectable cycles are not counted as leaks', 'DESIGN.md#c15')
add('C16', 'fault_enumeration', 'sanitizers: ASan+UBSan build of the engine as oracle (report blocks, worker exit status) over depth probes, a complete traversal x container x callback position x mutation matrix and seeded type-confusion calls',
    'The instrumented engine is driven through the enumerated matrix and hostile calls in journaled workers; any sanitizer report or signal death is a violation; clean run = no report on these executions, not memory safety.',
    'clang-14 ASan/UBSan, CPython objects malloc-backed; red zones miss intra-object overflows; only code reached is judged', 'DESIGN.md#c16')
add('C17', 'exploration', 'runtime monitoring: cooperative scheduler parking threads inside engine-invoked callbacks, DFS-by-replay + random schedule enumeration, solo-result oracle, journal stall watchdog with gdb lock signature, preemptive stress (thorough: also ASan/TSan builds)',
    'Interleavings at callback granularity are enumerated and executed on the real engine; each result is compared with the solo result / registry model; deadlock is restated as bounded progress and judged by a stack signature.',
    'GIL build only; TSan on a GIL build is weak evidence; dict_insertion_ordered excluded as documented', 'DESIGN.md#c17')
add('C18', 'exploration', 'runtime monitoring: differential oracle between bound C++ implementations and __python_implementation__ twins over a generated class universe, cache-history phases with measured address reuse, sort twin and one-level twin',
    'Both implementations are executed on every generated class / key list / node and must agree; cache history phases (fresh interpreter, shuffled, > 4096 live classes, churn with address reuse) must not change answers.',
    'classes are not mutated after classification; address reuse is measured, not assumed', 'DESIGN.md#c18')
add('C19', 'exploration', 'runtime monitoring: generated dataclass layouts / flags / inheritance / routes checked against a documentation-derived partition and a dataclasses.dataclass twin; recording function for partial calls after tree_map',
    'Each generated layout is really decorated, instantiated, flattened in several namespaces, rebuilt and compared with its plain-dataclass twin; partial chains are called after mapping and the recorded call is compared.',
    'when eq=False instances are compared field by field', 'DESIGN.md#c19')
add('C20', 'exploration', 'runtime monitoring: post-condition contract on the real tree_ravel (icontract.ensure) and on every unravel call, per backend subprocess (numpy, jax, torch), reference promotion through the backend API',
    'The real tree_ravel of each backend is wrapped by a contract and driven with generated array pytrees; inverse laws and rejections are checked bit-exactly per leaf.',
    'promotion reference = backend API; value round trip only for representable vectors', 'DESIGN.md#c20')

ALL = [f'C{i:02d}' for i in range(1, 21)]


def main():
    checks = []
    for pid, (cat, tech, text, note, ref) in sorted(CHECKS.items()):
        checks.append(dict(
            property_id=pid,
            quick_cmd=f'./check {pid} --tier quick',
            thorough_cmd=f'./check {pid} --tier thorough',
            evidence_file=f'evidence/{pid}.json',
            replay_cmd_template='cat {path}',
            engine='vf',
            level_claimed=dict(category=cat, text=text, design_ref=ref),
            level_note=note,
            technique=tech,
        ))
    na = [dict(property_id=p, reason='check under construction in this session; not claimed until its monitors are validated on the unchanged tree')
          for p in ALL if p not in CHECKS]
    m = dict(
        version=1,
        setup_cmd='python3 tools/setup.py',
        hooks=dict(
            guard='OPTREE_VERIF',
            enable='checks set OPTREE_VERIF=1 and rebuild the engine from the working tree into /verif/.build (vf/build.py); no hook code exists in /repo, every observation point used is public API',
            baseline_off_cmd='python3 /verif/tools/baseline_off.py',
            source_commits=[],
            add_only=True,
        ),
        engines=[dict(name='vf', path='vf/', serves_properties=sorted(CHECKS), kind_free_text='runtime monitors + sanitizer builds driven by seeded generators (python, subprocess workers)')],
        checks=checks,
        not_applicable=na,
        notes='All checks rebuild the C++ engine from /repo working tree (content-hashed cache) and shadow the editable install via PYTHONPATH. Exit 2 = inconclusive (monitor not reached).',
    )
    with open(os.path.join(VERIF, 'MANIFEST.json'), 'w') as f:
        json.dump(m, f, indent=1)
    print('wrote MANIFEST.json with', len(checks), 'checks;', len(na), 'not claimed')


if __name__ == '__main__':
    main()
