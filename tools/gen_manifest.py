#!/usr/bin/python3
"""Regenerate MANIFEST.json from the table below (keeps it schema-valid at all times)."""
import json
import os

VERIF = os.path.dirname(os.path.dirname(os.path.abspath(__file__)))

# id -> (level category, technique, level text, level note, design ref)
CHECKS = {}


def add(pid, cat, technique, text, note, ref):
    CHECKS[pid] = (cat, technique, text, note, ref)


add('C01', 'exploration', 'runtime monitoring: generated trees with container histories x option grid, exact structural-identity oracle on the real flatten/unflatten',
    'Held-on-K-executions: every generated (tree, options) case is round-tripped through the rebuilt engine and judged by an independent structural identity oracle; reach is the generator bounds, not a proof.',
    'trusts vf.same / vf.refmodel (harness), CPython, g++; depth<=6, fan-out<=80', 'DESIGN.md#c01')
add('C02', 'exploration', 'runtime monitoring: differential oracle (executable reference of the README rules) over generated trees, key mixes and all insertion permutations of small dicts',
    'Differential runtime check against an independent reference model on every generated case; permutations of small dicts enumerated completely; not a proof.',
    'the reference model is a second reading of the documentation; shared misreadings are invisible (mitigated by C03/C18)', 'DESIGN.md#c02')

ALL = [f'C{i:02d}' for i in range(1, 21)]


def main():
    checks = []
    for pid, (cat, tech, text, note, ref) in sorted(CHECKS.items()):
        checks.append(dict(
            property_id=pid,
            quick_cmd=f'./check {pid} --tier quick',
            thorough_cmd=f'./check {pid} --tier thorough',
            evidence_file=f'evidence/{pid}.json',
            replay_cmd_template='cat {path}',
            engine='vf',
            level_claimed=dict(category=cat, text=text, design_ref=ref),
            level_note=note,
            technique=tech,
        ))
    na = [dict(property_id=p, reason='check under construction in this session; not claimed until its monitors are validated on the unchanged tree')
          for p in ALL if p not in CHECKS]
    m = dict(
        version=1,
        setup_cmd='python3 tools/setup.py',
        hooks=dict(
            guard='OPTREE_VERIF',
            enable='checks set OPTREE_VERIF=1 and rebuild the engine from the working tree into /verif/.build (vf/build.py); no hook code exists in /repo, every observation point used is public API',
            baseline_off_cmd='python3 /verif/tools/baseline_off.py',
            source_commits=[],
            add_only=True,
        ),
        engines=[dict(name='vf', path='vf/', serves_properties=sorted(CHECKS), kind_free_text='runtime monitors + sanitizer builds driven by seeded generators (python, subprocess workers)')],
        checks=checks,
        not_applicable=na,
        notes='All checks rebuild the C++ engine from /repo working tree (content-hashed cache) and shadow the editable install via PYTHONPATH. Exit 2 = inconclusive (monitor not reached).',
    )
    with open(os.path.join(VERIF, 'MANIFEST.json'), 'w') as f:
        json.dump(m, f, indent=1)
    print('wrote MANIFEST.json with', len(checks), 'checks;', len(na), 'not claimed')


if __name__ == '__main__':
    main()
