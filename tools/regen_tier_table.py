#!/usr/bin/env python3
"""Replace the quick-tier table of DESIGN.md section 7 by the output of tools/tier_table.py (evidence/ as committed)."""
import os, re, subprocess
root = os.path.join(os.path.dirname(os.path.abspath(__file__)), '..')
table = subprocess.run(['python3', os.path.join(root, 'tools', 'tier_table.py')], capture_output=True, text=True, check=True).stdout.strip()
p = os.path.join(root, 'DESIGN.md')
s = open(p).read()
a = s.index('| id | tier | seed | evaluations |')
b = s.index('\n\n', a)
s = s[:a] + table + s[b:]
open(p, 'w').write(s)
print('table rows', table.count('\n') - 1)
